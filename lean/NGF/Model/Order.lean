/-
C14 — conflict resolution by age then namespace/name (core Lean only, executable).

Every function mirrors one Go function of /repo (named in its doc comment). Go maps are modelled as
lists whose ORDER IS THE MAP ITERATION ORDER: the theorems quantify over all permutations of these
lists. `sort.Slice` / `sort.SliceStable` are modelled by a stable sort (`isort`, proved equal to core's
`List.mergeSort`) on the induced preorder
(`le a b := !less b a`); `NGF.Sort.any_sort_eq_mergeSort` shows that any sorted permutation (the
contract of the unstable `sort.Slice`) coincides with it when keys are distinct.

Strings are lists of bytes (`List Nat`, UTF-8): Go's `<` on strings is bytewise lexicographic.
`metav1.Time` has second precision: a creation timestamp is an `Int` (Unix seconds).
-/
namespace NGF.Order

/-- Go `s1 < s2` on strings: bytewise lexicographic, a proper prefix is smaller. -/
def bytesLt : List Nat → List Nat → Bool
  | [], [] => false
  | [], _ :: _ => true
  | _ :: _, [] => false
  | a :: as, b :: bs => if a < b then true else if b < a then false else bytesLt as bs

/-- what `LessObjectMeta` / `LessClientObject` read of an object -/
structure Meta where
  ts : Int
  ns : List Nat
  name : List Nat
deriving DecidableEq, Repr

/-- `sort.LessObjectMeta` and `sort.LessClientObject` (internal/mode/static/sort/sort.go), statement by
statement: equal timestamps → (equal namespaces → name < name, else namespace < namespace), else
timestamp before. -/
def less (a b : Meta) : Bool :=
  if a.ts = b.ts then
    if a.ns = b.ns then bytesLt a.name b.name
    else bytesLt a.ns b.ns
  else decide (a.ts < b.ts)

/-- the preorder handed to the sort: `a ≤ b` iff not `b < a` -/
def le (a b : Meta) : Bool := !less b a

/-- stable insertion: `x` goes before the first element it is `≤` to (so before its equivalents) -/
def insertBy {α : Type} (le : α → α → Bool) (x : α) : List α → List α
  | [] => [x]
  | y :: ys => if le x y then x :: y :: ys else y :: insertBy le x ys

/-- A structurally recursive STABLE sort (kernel-reducible, so that witnesses can be checked by
`decide`). `NGF.Order.isort_eq_mergeSort` proves it equal to core's `List.mergeSort` for every total
preorder; it stands for both `sort.SliceStable` and (on distinct keys, where the sorted permutation is
unique) the unstable `sort.Slice`. -/
def isort {α : Type} (le : α → α → Bool) : List α → List α
  | [] => []
  | x :: xs => insertBy le x (isort le xs)

/-- `sort.Slice(xs, func(i,j){ return LessClientObject(xs[i], xs[j]) })` -/
def sortBy {α : Type} (m : α → Meta) (l : List α) : List α :=
  isort (fun a b => le (m a) (m b)) l

/-! ### Gateways: `processGateways` (state/graph/gateway.go) -/

structure Gw where
  md : Meta
  cls : List Nat
deriving DecidableEq, Repr

structure GwResult where
  winner : Option Gw
  ignored : List Gw
deriving DecidableEq, Repr

/-- `processGateways(gws, gcName)`; `gws` is the map in iteration order. The `Ignored` map is
represented by the sorted tail (a canonical listing of a set). -/
def processGateways (gws : List Gw) (gc : List Nat) : GwResult :=
  match sortBy (·.md) (gws.filter (fun g => g.cls == gc)) with
  | [] => ⟨none, []⟩
  | w :: rest => ⟨some w, rest⟩

/-! ### Match rules: `higherPriority` + `sort.SliceStable` (state/dataplane/sort.go) -/

structure MatchRule where
  hasMethod : Bool
  headers : Nat
  queries : Nat
  src : Meta
  /-- everything the comparison does not look at (route kind, rule index, match, filters, backend group) -/
  tag : Nat
deriving DecidableEq, Repr

/-- `higherPriority(rule1, rule2)`, statement by statement -/
def higherPriority (r1 r2 : MatchRule) : Bool :=
  if r1.hasMethod && !r2.hasMethod then true
  else if r2.hasMethod && !r1.hasMethod then false
  else if r1.headers != r2.headers then decide (r1.headers > r2.headers)
  else if r1.queries != r2.queries then decide (r1.queries > r2.queries)
  else less r1.src r2.src

def mrLe (a b : MatchRule) : Bool := !higherPriority b a

/-- `sortMatchRules`: `sort.SliceStable` with `higherPriority` -/
def sortMatchRules (l : List MatchRule) : List MatchRule := isort mrLe l

/-! ### TLSRoutes: `bindRoutesToListeners` (L4 part), `bindToListenerL4`, `portHostnamesMap`
(state/graph/route_common.go). A route's `claims` are the keys `"hostname:port"` it would register,
in the order the code visits them (parentRefs, then listeners, then accepted hostnames). -/

structure L4 where
  md : Meta
  claims : List String
deriving DecidableEq, Repr

/-- the loop over accepted hostnames in `bindToListenerL4` against `portHostnamesMap` (`taken`) -/
def grant (taken : List String) : List String → List String × List String
  | [] => ([], taken)
  | k :: ks =>
    if taken.contains k then grant taken ks
    else
      let r := grant (k :: taken) ks
      (k :: r.1, r.2)

def bindL4Sorted (taken : List String) : List L4 → List (L4 × List String)
  | [] => []
  | r :: rs =>
    let g := grant taken r.claims
    (r, g.1) :: bindL4Sorted g.2 rs

/-- `for _, r := range l4Routes {routes = append(routes, r)}; sort.Slice(routes, LessClientObject);
for _, r := range routes { bindL4RouteToListeners(r, …, portHostnamesMap) }` -/
def bindL4 (routes : List L4) : List (L4 × List String) :=
  bindL4Sorted [] (sortBy (·.md) routes)

/-! ### BackendTLSPolicy for a Service: `findBackendTLSPolicyForService` (state/graph/backend_refs.go) -/

structure Btp where
  md : Meta
  targets : List (List Nat)
deriving DecidableEq, Repr

/-- `if beTLSPolicy != nil { if LessClientObject(btp, beTLSPolicy) { beTLSPolicy = btp } } else { beTLSPolicy = btp }` -/
def btpUpd (acc : Option Btp) (b : Btp) : Option Btp :=
  match acc with
  | some c => if less b.md c.md then some b else some c
  | none => some b

/-- the body of the outer loop: the inner loop over `btp.Source.Spec.TargetRefs` -/
def btpStep (refNs refName : List Nat) (acc : Option Btp) (b : Btp) : Option Btp :=
  b.targets.foldl (fun acc t => if t = refName ∧ b.md.ns = refNs then btpUpd acc b else acc) acc

/-- `findBackendTLSPolicyForService`; `btps` is the map in iteration order -/
def findBTP (btps : List Btp) (refNs refName : List Nat) : Option Btp :=
  btps.foldl (btpStep refNs refName) none

/-! ### NGF policies: `markConflictedPolicies` (state/graph/policies.go) -/

structure Pol where
  id : Nat
  md : Meta
  gvk : Nat
  /-- interned (group, kind, namespace/name) of each targetRef that survived `processPolicies` -/
  targets : List Nat
  /-- bit set of the spec fields that `validator.Conflicts` compares (two policies conflict iff they
  share a bit) -/
  mask : Nat
  /-- `Valid` before conflict marking -/
  valid : Bool
deriving DecidableEq, Repr

/-- `validator.Conflicts` of the three validators: a field is set in both specs -/
def maskConflicts (a b : Pol) : Bool := (a.mask &&& b.mask) != 0

/-- inner `for j := i+1 …` loop; `inv` = ids whose `Valid` was set to false so far -/
def markFrom (conf : Pol → Pol → Bool) (i : Pol) : List Pol → List Nat → List Nat
  | [], inv => inv
  | j :: js, inv =>
    if !inv.contains j.id && conf i j then markFrom conf i js (j.id :: inv)
    else markFrom conf i js inv

/-- outer `for i := range policyList` loop over one (sorted) list of `possibles` -/
def processGroup (conf : Pol → Pol → Bool) : List Pol → List Nat → List Nat
  | [], inv => inv
  | i :: rest, inv =>
    if inv.contains i.id then processGroup conf rest inv
    else processGroup conf rest (markFrom conf i rest inv)

/-- DECLARATIVE specification of the losers of one group (greedy by age): walk the group in priority order
keeping the list `acc` of survivors; a policy is dropped (Conflicted) iff some OLDER SURVIVING policy conflicts with
it, otherwise it survives. -/
def dropped (conf : Pol → Pol → Bool) : List Pol → List Pol → List Pol
  | _, [] => []
  | acc, p :: rest =>
    if acc.any (fun q => conf q p) then p :: dropped conf acc rest
    else dropped conf (acc ++ [p]) rest

/-- the survivors of the same walk -/
def survivors (conf : Pol → Pol → Bool) : List Pol → List Pol → List Pol
  | acc, [] => acc
  | acc, p :: rest =>
    if acc.any (fun q => conf q p) then survivors conf acc rest
    else survivors conf (acc ++ [p]) rest

/-- `possibles[key]` after `sort.Slice`: the valid policies of that GVK naming that target -/
def groupOf (pols : List Pol) (key : Nat × Nat) : List Pol :=
  sortBy (·.md) (pols.filter (fun p => p.valid && p.gvk == key.1 && p.targets.contains key.2))

/-- `markConflictedPolicies`: `pols` is the policy map and `keys` the `possibles` map, both in iteration
order. Returns the ids marked `Valid=false` (each gets exactly one `PolicyConflicted` condition). -/
def markConflicted (conf : Pol → Pol → Bool) (keys : List (Nat × Nat)) (pols : List Pol) : List Nat :=
  keys.foldl (fun inv k => processGroup conf (groupOf pols k) inv) []

/-- the keys of `possibles`, in first-occurrence order of `pols` -/
def keysOf (pols : List Pol) : List (Nat × Nat) :=
  (pols.filter (·.valid)).foldr (fun p acc => (p.targets.map (fun t => (p.gvk, t))) ++ acc) [] |>.eraseDups

/-- candidate repair (see notes/C14.md): walk ALL valid policies once in priority order; a policy
loses iff an older, still valid policy of its GVK shares a target with it and conflicts. -/
def shares (a b : Pol) : Bool := a.gvk == b.gvk && a.targets.any (fun t => b.targets.contains t)

def markConflictedFixed (conf : Pol → Pol → Bool) (pols : List Pol) : List Nat :=
  processGroup (fun a b => shares a b && conf a b) (sortBy (·.md) (pols.filter (·.valid))) []

/-! ### Listeners on one port: `createPortConflictResolver` (state/graph/gateway_listener.go) -/

inductive Proto | http | https | tls
deriving DecidableEq, Repr

/-- `protocolGroups` -/
def Proto.group : Proto → Nat
  | .http => 1 | .https => 0 | .tls => 0

structure Lis where
  id : Nat
  port : Nat
  proto : Proto
  /-- `none` = no hostname -/
  host : Option String
deriving DecidableEq, Repr

inductive LCond | protocolConflict | hostnameConflict
deriving DecidableEq, Repr

/-- `matchesWildcard`'s inner `mw` -/
def mw (h1 h2 : String) : Bool :=
  h1.startsWith "*." && h2.endsWith ((h1.drop 2).toString)

/-- `haveOverlap(hostname1, hostname2)` -/
def haveOverlap : Option String → Option String → Bool
  | none, _ => true
  | _, none => true
  | some a, some b => a == b || mw a b || mw b a

/-- the overlap relation on listeners used by the executable model; the theorems take it as a parameter -/
def lisOverlap (a b : Lis) : Bool := haveOverlap a.host b.host

structure LState where
  conflictedPorts : List Nat := []
  owner : List (Nat × Nat) := []            -- portProtocolOwner
  byPort : List (Nat × Lis) := []           -- listenersByPort (flattened, in append order)
  invalid : List Nat := []                  -- ids with Valid=false
  conds : List (Nat × LCond) := []          -- appended conditions, in order
deriving Repr

/-- one call of the closure returned by `createPortConflictResolver` -/
def resolveOne (ov : Lis → Lis → Bool) (s : LState) (l : Lis) : LState :=
  if s.conflictedPorts.contains l.port then
    { s with invalid := l.id :: s.invalid, conds := s.conds ++ [(l.id, .protocolConflict)] }
  else
    match s.owner.lookup l.port with
    | none => { s with owner := (l.port, l.proto.group) :: s.owner, byPort := s.byPort ++ [(l.port, l)] }
    | some g =>
      let seen := (s.byPort.filter (·.1 == l.port)).map (·.2)
      if g != l.proto.group then
        { s with conflictedPorts := l.port :: s.conflictedPorts,
                 invalid := l.id :: (seen.map (·.id) ++ s.invalid),
                 conds := s.conds ++ seen.map (fun x => (x.id, LCond.protocolConflict)) ++ [(l.id, .protocolConflict)],
                 byPort := s.byPort ++ [(l.port, l)] }
      else
        let hit := seen.filter (fun x => x.proto != l.proto && ov l x)
        if hit.isEmpty then { s with byPort := s.byPort ++ [(l.port, l)] }
        else
          { s with invalid := l.id :: (hit.map (·.id) ++ s.invalid),
                   conds := s.conds ++ hit.map (fun x => (x.id, LCond.hostnameConflict)) ++ [(l.id, .hostnameConflict)],
                   byPort := s.byPort ++ [(l.port, l)] }

/-- the resolver applied to the listeners that passed their validators, in `spec.listeners` order -/
def resolveListeners (ov : Lis → Lis → Bool) (ls : List Lis) : LState :=
  ls.foldl (resolveOne ov) {}

/-- two listeners conflict: same port and (different protocol group, or different protocols of one group with
overlapping hostnames) -/
def clash (ov : Lis → Lis → Bool) (a b : Lis) : Bool :=
  a.port == b.port && (a.proto.group != b.proto.group || (a.proto != b.proto && ov a b))

/-- order-free characterisation of the final `Valid` flag: no other listener clashes with `l` -/
def lisValidSpec (ov : Lis → Lis → Bool) (ls : List Lis) (l : Lis) : Bool :=
  !(ls.any (clash ov l))

end NGF.Order
