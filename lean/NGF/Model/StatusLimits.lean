/-
C08 — CRD limits of a submitted status, `conditions.DeduplicateConditions`, and the "ancestor list is
full" checks of `internal/mode/static/state/graph/policy_ancestor.go`.
-/
import NGF.Model.StatusWrite
namespace NGF.StatusWrite

/-! ### DeduplicateConditions: the last condition of a type wins, survivors keep their order -/

def keepFirst (seen : List String) : List Cond → List Cond
  | [] => []
  | c :: cs =>
    if seen.contains c.type then keepFirst seen cs else c :: keepFirst (c.type :: seen) cs

def dedup (cs : List Cond) : List Cond := (keepFirst [] cs.reverse).reverse

/-! ### Patterns of `metav1.Condition` in the CRDs -/

def isLower (c : Char) : Bool := 'a' ≤ c && c ≤ 'z'
def isUpper (c : Char) : Bool := 'A' ≤ c && c ≤ 'Z'
def isDigit (c : Char) : Bool := '0' ≤ c && c ≤ '9'
def isAlnum (c : Char) : Bool := isLower c || isUpper c || isDigit c

/-- `^[A-Za-z]([A-Za-z0-9_,:]*[A-Za-z0-9_])?$` -/
def reasonOkL : List Char → Bool
  | [] => false
  | c :: rest =>
    (isLower c || isUpper c) &&
      match rest.getLast? with
      | none => true
      | some l => rest.all (fun x => isAlnum x || x == '_' || x == ',' || x == ':') &&
                  (isAlnum l || l == '_')

def reasonOk (s : String) : Bool := reasonOkL s.toList

/-- `[a-z0-9]([-a-z0-9]*[a-z0-9])?` -/
def dnsLabelOk (l : List Char) : Bool :=
  match l, l.getLast? with
  | c :: _, some e => (isLower c || isDigit c) && (isLower e || isDigit e) &&
                      l.all (fun x => isLower x || isDigit x || x == '-')
  | _, _ => false

def splitOnChar (sep : Char) : List Char → List (List Char)
  | [] => [[]]
  | c :: cs =>
    match splitOnChar sep cs with
    | [] => [[]]
    | h :: t => if c == sep then [] :: h :: t else (c :: h) :: t

/-- `([A-Za-z0-9][-A-Za-z0-9_.]*)?[A-Za-z0-9]` -/
def typeNameOk (l : List Char) : Bool :=
  match l, l.getLast? with
  | c :: _, some e => isAlnum c && isAlnum e &&
                      l.all (fun x => isAlnum x || x == '-' || x == '_' || x == '.')
  | _, _ => false

/-- `^(<dns subdomain>/)?(([A-Za-z0-9][-A-Za-z0-9_.]*)?[A-Za-z0-9])$` -/
def typeOkL (l : List Char) : Bool :=
  match splitOnChar '/' l with
  | [name] => typeNameOk name
  | [dom, name] => (splitOnChar '.' dom).all dnsLabelOk && typeNameOk name
  | _ => false

def typeOk (s : String) : Bool := typeOkL s.toList

def statusOk (s : String) : Bool := s == "True" || s == "False" || s == "Unknown"

/-! ### Limits (numbers come from the CRD YAML through the translator / the check plugin) -/

structure Limits where
  maxEntries : Nat   -- parents / ancestors / controllers (merging kinds)
  minConds   : Nat
  maxConds   : Nat
  maxMessage : Nat
  maxReason  : Nat
  maxType    : Nat
  deriving Repr

def hasDupTypes : List Cond → Bool
  | [] => false
  | c :: cs => cs.any (fun d => d.type == c.type) || hasDupTypes cs

def condViolation (L : Limits) (c : Cond) : Option String :=
  if c.message.length > L.maxMessage then some "message-exceeds-maxLength"
  else if c.reason.length > L.maxReason || !reasonOk c.reason then some "reason-format"
  else if c.type.length > L.maxType || !typeOk c.type then some "type-format"
  else if !statusOk c.status then some "status-enum"
  else if c.gen < 0 then some "observedGeneration-negative"
  else none

def condsViolation (L : Limits) (cs : List Cond) : Option String :=
  if cs.length > L.maxConds then some "conditions-exceed-maxItems"
  else if cs.length < L.minConds then some "conditions-below-minItems"
  else if hasDupTypes cs then some "condition-types-not-unique"
  else cs.findSome? (condViolation L)

/-- First limit a status violates, if any. `merging`: entries carry a controller name. -/
def statusViolation (L : Limits) (merging : Bool) (st : Status) : Option String :=
  if st.length > L.maxEntries then some "entries-exceed-maxItems"
  else st.findSome? fun e =>
    if merging && e.ctlr.isEmpty then some "controllerName-empty" else condsViolation L e.conds

/-! ### Ancestor-list-full checks -/

/-- `ngfPolicyAncestorsFull`: foreign entries of the policy's current status plus the ancestors
already collected. -/
def ngfFull (maxA : Nat) (ctlr : String) (cur : Status) (collected : Nat) : Bool :=
  decide ((foreign ctlr cur).length + collected ≥ maxA)

/-- `attachPolicyToGateway` / `attachPolicyToRoute` over a list of targets: every target appends one
ancestor unless the list is full. -/
def ngfAttach (maxA : Nat) (ctlr : String) (cur : Status) : List Entry → List Entry → List Entry
  | [], acc => acc
  | t :: ts, acc =>
    if ngfFull maxA ctlr cur acc.length then ngfAttach maxA ctlr cur ts acc
    else ngfAttach maxA ctlr cur ts (acc ++ [t])

/-- `backendTLSPolicyAncestorsFull` -/
def btpFull (maxA : Nat) (ctlr : String) (cur : Status) : Bool :=
  if cur.length < maxA then false
  else !(cur.any fun e => e.ctlr == ctlr)

end NGF.StatusWrite
