/-
C06 (task C06-certs) — ReferenceGrants of the C06 model under the TLS layer of the pipeline model.

`Model/PipelineTls.lean` (C16, read-only) carries ReferenceGrants as `Tls.Grant` (names as character lists, `name = []` for
"every resource", no grant name) and decides a certificate reference with its own transcription `Tls.secretRefAllowed`.
`ScenarioTG` is the same scenario with the grants as C06 models them (`RefGrant.Grant`: `to.name : Option String`, the
objects as the API delivers them); `toT` projects it to a `ScenarioT` (`convGrant`), `genTG = genT ∘ toT`. The projection
lemma (`Proofs/PipelineTlsRefs.secretRefAllowed_conv`) shows that what `PipelineTls` asks of the projected grants is
exactly what the C06 resolver model (`RefGrant.newResolver` / `refAllowed` with `toSecret` / `fromGateway`) answers, hence
(`refAllowed_iff_spec`) the declarative spec `RefGrant.Permitted … "Secret" …`. Core-only.
-/
import NGF.Model.PipelineTls
import NGF.Model.RefGrant

namespace NGF.PipelineTlsRefs
open NGF.Pipeline NGF.PipelineTls

structure ScenarioTG where
  cls : Str
  ctlr : Str
  classes : List GwClass
  gateways : List GatewayT
  routes : List Route
  secrets : List Tls.SecretObj
  /-- `clusterState.ReferenceGrants` as C06 models them -/
  grants : List RefGrant.Grant

def convFrom (f : RefGrant.GrantFrom) : Tls.GrantFrom := ⟨f.group.toList, f.kind.toList, f.ns.toList⟩

/-- `toName := ""; if to.Name != nil { toName = string(*to.Name) }` -/
def convTo (t : RefGrant.GrantTo) : Tls.GrantTo := ⟨t.group.toList, t.kind.toList, (RefGrant.toName t).toList⟩

def convGrant (g : RefGrant.Grant) : Tls.Grant := ⟨g.ns.toList, g.froms.map convFrom, g.tos.map convTo⟩

def toT (s : ScenarioTG) : ScenarioT :=
  { cls := s.cls, ctlr := s.ctlr, classes := s.classes, gateways := s.gateways, routes := s.routes, secrets := s.secrets,
    grants := s.grants.map convGrant }

/-- the generated configuration (plain HTTP part, SSL servers with their key-pair ids, SSL ports, key-pair files) -/
def genTG (s : ScenarioTG) : ConfT := genT (toT s)

/-- SPEC: the certificate reference `c` of a listener of Gateway namespace `gwNs` is justified: same namespace, or a
ReferenceGrant in the Secret's namespace permits (Gateway, gwNs) → (Secret, name) -/
def CertJustified (gs : List RefGrant.Grant) (gwNs : Str) (c : Str × Str) : Prop :=
  c.1 = gwNs ∨ RefGrant.Permitted gs "Secret" (String.ofList c.1) (String.ofList c.2) (RefGrant.fromGateway (String.ofList gwNs))

/-- the grants that remain when every grant permitting (Gateway, gwNs) → (Secret, c) is deleted -/
def revokeCert (gs : List RefGrant.Grant) (gwNs : Str) (c : Str × Str) : List RefGrant.Grant :=
  gs.filter fun g => !RefGrant.permittedB [g] "Secret" (String.ofList c.1) (String.ofList c.2) (RefGrant.fromGateway (String.ofList gwNs))

end NGF.PipelineTlsRefs
