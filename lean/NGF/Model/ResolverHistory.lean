import NGF.Model.ResolverFaults
/-
C13 — HISTORIES of watch events: the change processor's relevance decision for EndpointSlice (and Service / HTTPRoute)
events, batch by batch, in front of the handler model of `Model/ResolverFaults.lean`.

Modelled code (`/repo/internal/mode/static/state`):
* `store.go` `changeTrackingUpdater.upsert` — `oldObj = store.get(key); store.upsert(obj)`; `delete` — `old = store.get(key)`,
  `nil ⇒ false`, otherwise the STORED object is judged and removed; `setChangeType` (an EndpointSlice change alone is
  `EndpointsOnlyChange`, anything else `ClusterStateChange`, never downgraded inside a batch);
  `objectStoreMapAdapter.upsert/delete` (a plain map: EVERY object is kept);
* `changed_predicate.go` `funcPredicate.upsert` = `isReferenced(new) || (old != nil && isReferenced(old))`, `.delete` =
  `isReferenced(stored)`;
* `change_processor.go` the EndpointSlice entry of `NewChangeProcessorImpl` (a store of its own, kept only to judge
  update/delete events; predicate `isReferenced` = `latestGraph != nil && latestGraph.IsReferenced`), `Process`
  (`NoChange` ⇒ nothing is rebuilt; otherwise `BuildGraph` from the CURRENT cluster state);
* `graph/graph.go` `IsReferenced` for EndpointSlices (owner Service = label `kubernetes.io/service-name` in the slice's
  namespace ∈ `ReferencedServices`) and Services; `graph/service.go` `buildReferencedServices`.

World of the `hist` stream (harness/c13/hist.go): one Gateway that every HTTPRoute attaches to, HTTPRoutes with
same-namespace backendRefs (Service name, port), Services with named ports, EndpointSlices.  The informer cache (what
`Resolve` lists) and the processor's Service/route stores always hold the current objects: they are `Cluster`.  The
EndpointSlice tracking store is separate (`Proc.store`).
-/
namespace NGF.Resolver

structure HSvc where
  ns : String
  name : String
  ports : List SvcPort
  deriving DecidableEq, Repr

structure HRef where
  name : String             -- Service in the route's namespace
  port : Nat
  deriving DecidableEq, Repr

structure HRoute where
  ns : String
  name : String
  refs : List HRef
  deriving DecidableEq, Repr

abbrev SKey := String × String   -- namespace, object name

structure Cluster where
  slices : List (SKey × Slice)
  svcs   : List HSvc
  routes : List HRoute
  deriving Repr

inductive Ev
  | upsertSlice (obj : String) (s : Slice)
  | deleteSlice (ns obj : String)
  | upsertSvc (s : HSvc)
  | deleteSvc (ns name : String)
  | upsertRoute (r : HRoute)
  | deleteRoute (ns name : String)
  deriving Repr

/-! ### maps as association lists -/

def getKV (m : List (SKey × Slice)) (k : SKey) : Option Slice := (m.find? fun kv => kv.1 == k).map (·.2)
def delKV (m : List (SKey × Slice)) (k : SKey) : List (SKey × Slice) := m.filter fun kv => !(kv.1 == k)
def putKV (m : List (SKey × Slice)) (k : SKey) (v : Slice) : List (SKey × Slice) := delKV m k ++ [(k, v)]

def hasSvc (svcs : List HSvc) (ns name : String) : Bool := svcs.any fun s => s.ns == ns && s.name == name
def delSvc (svcs : List HSvc) (ns name : String) : List HSvc := svcs.filter fun s => !(s.ns == ns && s.name == name)
def hasRoute (rs : List HRoute) (ns name : String) : Bool := rs.any fun r => r.ns == ns && r.name == name
def delRoute (rs : List HRoute) (ns name : String) : List HRoute := rs.filter fun r => !(r.ns == ns && r.name == name)

/-- the cluster after the event -/
def Cluster.apply (c : Cluster) : Ev → Cluster
  | .upsertSlice obj s => { c with slices := putKV c.slices (s.ns, obj) s }
  | .deleteSlice ns obj => { c with slices := delKV c.slices (ns, obj) }
  | .upsertSvc s => { c with svcs := delSvc c.svcs s.ns s.name ++ [s] }
  | .deleteSvc ns name => { c with svcs := delSvc c.svcs ns name }
  | .upsertRoute r => { c with routes := delRoute c.routes r.ns r.name ++ [r] }
  | .deleteRoute ns name => { c with routes := delRoute c.routes ns name }

/-! ### the graph's reading of the cluster -/

/-- `buildReferencedServices`: the Services named by the backendRefs of the (valid, attached) routes -/
def refsOf (c : Cluster) : List (String × String) := c.routes.flatMap fun r => r.refs.map fun ref => (r.ns, ref.name)

/-- `getServicePort` in the Service of that name: the first `spec.ports` entry with the number -/
def findSvcPort (svcs : List HSvc) (ns name : String) (port : Nat) : Option SvcPort :=
  match svcs.find? (fun s => s.ns == ns && s.name == name) with
  | none => none
  | some s => s.ports.find? fun p => p.port == port

/-- `buildUpstreams` for one backendRef: resolvable ⇒ the upstream with the ready endpoints of the CURRENT slices -/
def upOf (svcs : List HSvc) (slices : List Slice) (ns : String) (ref : HRef) : Option Up :=
  (findSvcPort svcs ns ref.name ref.port).map fun sp =>
    ⟨ns ++ "_" ++ ref.name ++ "_" ++ toString ref.port, upstreamEndpoints slices ns ref.name sp .dual⟩

def dedupUps : List Up → List String → List Up
  | [], _ => []
  | u :: r, seen => if u.name ∈ seen then dedupUps r seen else u :: dedupUps r (u.name :: seen)

/-- the configuration `BuildConfiguration` builds from the current cluster (http upstreams; no TLSRoutes here) -/
def confOf (c : Cluster) : Conf :=
  ⟨dedupUps (c.routes.flatMap fun r => r.refs.filterMap (upOf c.svcs (c.slices.map (·.2)) r.ns)) [], []⟩

/-! ### the change processor -/

inductive Change
  | none | endpoints | cluster
  deriving DecidableEq, Repr

structure Proc where
  store   : List (SKey × Slice)               -- the EndpointSlice tracking store
  refd    : Option (List (String × String))   -- `latestGraph.ReferencedServices` (`none`: no graph yet)
  pending : Change                            -- `changeTrackingUpdater.changeType`
  deriving Repr

/-- `GetServiceNameFromEndpointSlice` -/
def sliceOwner (s : Slice) : String := s.svcLabel.getD ""

def refSvc (refd : Option (List (String × String))) (ns name : String) : Bool :=
  match refd with
  | none => false
  | some r => r.contains (ns, name)

/-- `isReferenced` for an EndpointSlice -/
def refSlice (refd : Option (List (String × String))) (s : Slice) : Bool := refSvc refd s.ns (sliceOwner s)

/-- `setChangeType` -/
def bump (p : Change) (changed isSlice : Bool) : Change :=
  if changed && p != .cluster then (if isSlice then .endpoints else .cluster) else p

/-- One captured event. `keepAll = true` is the code (the tracking store keeps EVERY slice); `keepAll = false` is the
REFUTED variant "remember only the slices whose owner Service is referenced at the moment of the upsert"
(seeded change C13-r4m1). `c` is the cluster BEFORE the event (the Service / route stores are the cluster itself). -/
def capture (keepAll : Bool) (c : Cluster) (p : Proc) : Ev → Proc
  | .upsertSlice obj s =>
    let k := (s.ns, obj)
    let old := getKV p.store k
    let changed := refSlice p.refd s || (match old with | some o => refSlice p.refd o | none => false)
    { p with store := if keepAll || refSlice p.refd s then putKV p.store k s else delKV p.store k,
             pending := bump p.pending changed true }
  | .deleteSlice ns obj =>
    match getKV p.store (ns, obj) with
    | none => p
    | some o => { p with store := delKV p.store (ns, obj), pending := bump p.pending (refSlice p.refd o) true }
  | .upsertSvc s => { p with pending := bump p.pending (refSvc p.refd s.ns s.name) false }
  | .deleteSvc ns name =>
    if hasSvc c.svcs ns name then { p with pending := bump p.pending (refSvc p.refd ns name) false } else p
  | .upsertRoute _ => { p with pending := bump p.pending true false }
  | .deleteRoute ns name => if hasRoute c.routes ns name then { p with pending := bump p.pending true false } else p

structure PState where
  cluster : Cluster
  proc : Proc
  h : HState
  deriving Repr

def captureAll (keepAll : Bool) : Cluster → Proc → List Ev → Cluster × Proc
  | c, p, [] => (c, p)
  | c, p, e :: es => captureAll keepAll (c.apply e) (capture keepAll c p e) es

/-- `HandleEventBatch` on one batch: capture every event, `Process`, and — unless `NoChange` — build the configuration
from the CURRENT cluster and apply it (no faults here). Second component: the change type `Process` returned. -/
def runBatch (plus keepAll : Bool) (st : PState) (evs : List Ev) : PState × Change :=
  let cp := captureAll keepAll st.cluster st.proc evs
  match cp.2.pending with
  | .none => ({ st with cluster := cp.1, proc := cp.2 }, .none)
  | ct =>
    let kind := if ct = .endpoints then Kind.endpoints else Kind.cluster
    ({ cluster := cp.1
       proc := { cp.2 with refd := some (refsOf cp.1), pending := .none }
       h := (stepH plus st.h ⟨kind, confOf cp.1, Faults.none⟩).1 }, ct)

def runHistory (plus keepAll : Bool) : PState → List (List Ev) → List (PState × Change)
  | _, [] => []
  | st, b :: bs => runBatch plus keepAll st b :: runHistory plus keepAll (runBatch plus keepAll st b).1 bs

/-- after the start-up batch (GatewayClass + Gateway): a graph without referenced Services, an empty configuration loaded -/
def PState.init (plus : Bool) : PState :=
  { cluster := ⟨[], [], []⟩
    proc := ⟨[], some [], .none⟩
    h := (stepH plus HState.init ⟨.cluster, ⟨[], []⟩, Faults.none⟩).1 }

end NGF.Resolver
