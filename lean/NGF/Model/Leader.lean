/-
C09 — model of `internal/framework/status/leader_aware_group_updater.go`
(`LeaderAwareGroupUpdater.UpdateGroup`, `.Enable`).

Both Go methods run under `u.lock` for their whole body (fact `LeaderFacts`), so a concurrent
execution is a sequence of atomic operations: the model is a sequential state machine over operation
lists and "all interleavings" = "all operation lists".

State follows the Go fields one to one: `enabled`, and `groupReqs` (a Go map) as an association list
with at most one entry per group.  The only place where the map's iteration order is visible is the
flush loop of `Enable`; the order is an explicit parameter of the `enable` operation.

Output: for every operation, the list of `Updater.Update(ctx, reqs...)` calls it makes (each tagged
with the group it belongs to; the tag is ghost information), or `panic` for a second `Enable`.
-/
namespace NGF.Leader

abbrev Req := Nat      -- a tagged `status.UpdateRequest`
abbrev Group := Nat    -- a group name

/-- one call `u.updater.Update(ctx, reqs...)`, with the group on whose behalf it is made -/
abbrev Write := Group × List Req
abbrev Saved := List Write

inductive Op
  | update (g : Group) (reqs : List Req)   -- `UpdateGroup(ctx, g, reqs...)`
  | enable (order : List Group)            -- `Enable(ctx)`; `order` = the map iteration order
  deriving DecidableEq, Repr

inductive Out
  | writes (ws : List Write)
  | panic
  deriving DecidableEq, Repr

structure LState where
  enabled : Bool
  saved   : Saved
  deriving DecidableEq, Repr

/-- `NewLeaderAwareGroupUpdater`: not enabled, empty map. -/
def init : LState := { enabled := false, saved := [] }

/-- map lookup -/
def get (g : Group) : Saved → Option (List Req)
  | [] => none
  | (k, v) :: t => if k = g then some v else get g t

/-- `delete(u.groupReqs, g)` -/
def del (g : Group) (s : Saved) : Saved := s.filter (fun p => p.1 != g)

/-- `u.groupReqs[g] = reqs` -/
def put (g : Group) (r : List Req) (s : Saved) : Saved := (g, r) :: del g s

/-- `for name, reqs := range u.groupReqs { Update(reqs...); delete(u.groupReqs, name) }` visiting the
groups in the order `order` (names that are not in the map are skipped; entries not named by
`order` are visited last, in list order, so that every entry is visited whatever `order` is). -/
def flush : List Group → Saved → List Write
  | [], s => s
  | g :: gs, s =>
    match get g s with
    | some r => (g, r) :: flush gs (del g s)
    | none => flush gs s

def step (s : LState) : Op → LState × Out
  | .update g r =>
    if s.enabled then (s, .writes [(g, r)])
    else if r.isEmpty then ({ s with saved := del g s.saved }, .writes [])
    else ({ s with saved := put g r s.saved }, .writes [])
  | .enable order =>
    if s.enabled then (s, .panic)
    else ({ enabled := true, saved := [] }, .writes (flush order s.saved))

/-- final state after a list of operations -/
def exec (s : LState) : List Op → LState
  | [] => s
  | op :: ops => exec (step s op).1 ops

/-- one output per operation -/
def run (s : LState) : List Op → List Out
  | [] => []
  | op :: ops => (step s op).2 :: run (step s op).1 ops

/-! ### Property vocabulary (no reference to the state machine) -/

def Op.isEnable : Op → Bool
  | .enable _ => true
  | .update _ _ => false

/-- a later submission to group `g` exists in `ops` -/
def superseded (g : Group) (ops : List Op) : Bool :=
  ops.any fun
    | .update g' _ => g' == g
    | .enable _ => false

/-- The submissions of `ops` that are the last one of their group and carry at least one request:
what a new leader has to write. -/
def latest : List Op → List Write
  | [] => []
  | .update g r :: ops =>
    if superseded g ops || r.isEmpty then latest ops else (g, r) :: latest ops
  | .enable _ :: ops => latest ops

/-- what an operation must do once leadership has been acquired -/
def after : Op → Out
  | .update g r => .writes [(g, r)]
  | .enable _ => .panic

/-- every `Updater.Update` call of a run, in order -/
def allWrites (outs : List Out) : List Write :=
  (outs.filterMap fun | .writes ws => some ws | .panic => none).flatten

/-- the submissions among `ops`, in order -/
def submissions (ops : List Op) : List Write :=
  ops.filterMap fun | .update g r => some (g, r) | .enable _ => none

end NGF.Leader
