/-
The tie of Model/Print + Model/PrintGuards to the real generator (C04, driver mode `print`).

Input: a scenario of C02's fragment profile in which ONE guarded string field carries a (benign or hostile) marker value,
in the flat form (`Spec.GatewayAPI.Scenario`), and the REAL http.conf / matches.json the pipeline generated for it.

  * `rawFragment`: the fragment view of the scenario WITHOUT any validity filtering (PipelineTie.toFragment refuses
    scenarios with invalid values; here the guards are the subject). On it the guards `fieldsOK`, `matchCondsOK`,
    `noBackslash` are evaluated.
  * when the scenario is inside the fragment (`toFragment`/`inFragment`, as in RenderTie): the model text
    `printDirs (render (genR fs order))` is lexed by the Lean lexer and compared TOKEN FOR TOKEN with the tokens of the real
    http.conf (restricted to the top-level directives Model/Render covers; split_clients blocks as a set — Go map order).
  * the theorems are executed on the case: `dirsOK` of the rendered tree, `parse (printDirs ds) = ds`.
Core-only; not itself subject of theorems.
-/
import NGF.Model.RenderTie
import NGF.Model.Print
import NGF.Model.PrintGuards
import NGF.Model.InjJudge
import NGF.Model.PrintEsc

namespace NGF.PrintTie
open NGF.Nginx NGF.Render NGF.Pipeline NGF.Print NGF.PrintGuards
abbrev SScenario := NGF.Spec.GatewayAPI.Scenario

/-- the fragment view without validity filtering: every HTTP listener of a Gateway of our class, every HTTPRoute with
every rule (first RequestRedirect filter → redirect, otherwise forward), every value as it is -/
def rawFragment (s : SScenario) : Pipeline.Scenario :=
  let gws := s.gws.map fun g =>
    ({ ns := g.ns.toList, name := g.name.toList, cls := g.cls.toList, age := g.age,
       listeners := if g.cls != s.cls then [] else
         (g.listeners.filter fun l => l.proto == "HTTP").map fun l =>
           ({ name := l.name.toList, port := l.port, host := (NGF.Spec.GatewayAPI.hostOf l).toList,
              fromAll := l.nsFrom == "All" } : Pipeline.Listener) } : Pipeline.Gateway)
  let routes := (s.routes.filter fun r => r.kind == "HTTPRoute").map fun r =>
    let parents := r.parents.filterMap fun p =>
      (NGF.Spec.GatewayAPI.parentTarget r p).map fun (ns, n, sec) =>
        ({ ns := ns.toList, name := n.toList, sectionName := sec.map String.toList } : Pipeline.Parent)
    let rules := r.rules.map fun rule =>
      let action := match rule.filters.find? (fun f => f.type == "RequestRedirect") with
        | some f =>
          Pipeline.Action.redirect (if f.code == 0 then 302 else f.code)
            (if f.scheme == "" then none else some f.scheme.toList) (if f.hostname == "" then none else some f.hostname.toList)
            (if f.hasPort then some f.port else none)
        | none => Pipeline.Action.forward (rule.backends.map (NGF.PipelineTie.toBackend s r))
      let ms := if rule.matches_.isEmpty then [({ exact := false, path := ['/'], method := [], headers := [], query := [] } : Pipeline.Match)]
                else rule.matches_.map NGF.PipelineTie.toMatch
      ({ ms := ms, action := action } : Pipeline.Rule)
    ({ ns := r.ns.toList, name := r.name.toList, age := r.age, parents := parents, hostnames := r.hostnames.map String.toList,
       rules := rules, valid := true } : Pipeline.Route)
  { cls := s.cls.toList, ctlr := s.ctlr.toList, classes := s.gcs.map (fun c => ⟨c.name.toList, c.ctlr.toList⟩),
    gateways := gws, routes := routes }

def nameS (d : Dir) : String := String.ofList d.name

def sortOn (ds : List Dir) : List Dir :=
  ((ds.map fun d => (NGF.RenderTie.showD d, d)).mergeSort fun a b => a.1 ≤ b.1).map (·.2)

/-- the directives Model/Render covers, split_clients blocks last and sorted (RenderTie.normalise on trees) -/
def normaliseD (ds : List Dir) : List Dir :=
  let k := ds.filter fun d => NGF.RenderTie.kept.contains (nameS d)
  (k.filter fun d => nameS d != "split_clients") ++ sortOn (k.filter fun d => nameS d == "split_clients")

def tokS : Tok → String := NGF.Inj.tokStr

/-- first position at which two token streams differ -/
def firstTokDiff (a b : List Tok) : String :=
  let rec go (i : Nat) : List Tok → List Tok → String
    | [], [] => ""
    | x :: _, [] => s!"token {i}: real has {tokS x}, model ends"
    | [], y :: _ => s!"token {i}: real ends, model has {tokS y}"
    | x :: xs, y :: ys => if x == y then go (i + 1) xs ys else s!"token {i}: real {tokS x} / model {tokS y}"
  go 0 a b

def skelString (ts : List Tok) : String :=
  String.ofList (ts.map fun t => match t with | .word _ true => 'q' | .word _ false => 'w' | .semi => ';' | .open => '{' | .close => '}')

/-- `parseToks` does not record whether the FIRST word of a statement was quoted (`'' close;` in a map block) -/
def unq : Tok → Tok
  | .word s _ => .word s false
  | t => t

structure Result where
  fieldsOK : Bool := false
  condsOK : Bool := false
  noBackslash : Bool := false
  fieldsSafe : Bool := false
  /-- marker in the real http.conf / matches.json -/
  markHttp : Bool := false
  markMatches : Bool := false
  /-- the real http.conf lexes and nests; `dirsToks (parse text) = lex text` on it (up to the quotedness of words) -/
  realLexes : Bool := false
  realRoundtrip : Bool := false
  inFragment : Bool := false
  why : String := ""
  /-- raw view and validated view render alike -/
  rawSame : Bool := false
  /-- the model text lexes to the tokens of the real text (kept directives) -/
  toksEqual : Bool := false
  skelEqual : Bool := false
  diff : String := ""
  /-- the theorems executed: safe words; parse ∘ print = id -/
  dirsOK : Bool := false
  /-- `print_skeleton` executed: the weak word predicates hold of the rendered tree (backslashes allowed) -/
  dirsOKw : Bool := false
  roundtrip : Bool := false
  markModel : Bool := false
  tokens : Nat := 0
  modelChars : Nat := 0
  /-- skeleton of the kept part of the real file (compared by the plugin between the benign and the hostile run) -/
  skel : String := ""
  /-- skeleton of the model text -/
  modelSkel : String := ""
  /-- the model text is read back with the skeleton of the INTENDED token stream `dirsToks` (also with backslashes) -/
  skelIntended : Bool := false

def tie (httpText matchesText : String) (s : SScenario) : Result :=
  let raw := rawFragment s
  let r0 : Result :=
    { fieldsOK := PrintGuards.fieldsOK raw, condsOK := matchCondsOK raw, noBackslash := PrintGuards.noBackslash raw,
      fieldsSafe := PrintGuards.fieldsSafe raw,
      markHttp := NGF.Inj.hasMarker httpText.toList, markMatches := NGF.Inj.hasMarker matchesText.toList }
  match lex httpText.toList with
  | .error _ => { r0 with why := "real http.conf does not lex" }
  | .ok realToks =>
    match parseToks (realToks.length + 1) 0 realToks [] [] with
    | .error _ => { r0 with why := "real http.conf does not nest" }
    | .ok (realDirs, _) =>
      let realN := normaliseD realDirs
      let realT := dirsToks realN
      let r1 := { r0 with realLexes := true, realRoundtrip := (dirsToks realDirs).map unq == realToks.map unq, tokens := realT.length,
                          skel := skelString realT }
      match NGF.PipelineTie.toFragment s with
      | .error e => { r1 with why := e }
      | .ok fs =>
        if !Pipeline.inFragment fs then { r1 with why := "inFragment (well-formedness / prefix value ending in '/')" }
        else match NGF.RenderTie.extraOutside s with
        | some e => { r1 with why := e }
        | none =>
          let order := NGF.RenderTie.realPortOrder realDirs
          let model := normaliseD (render (genR fs order))
          let modelRaw := normaliseD (render (genR raw order))
          let text := printDirs model
          let (eq, sk, diff, msk, ski) := match lex text with
            | .error e => (false, false, s!"model text does not lex: {reprStr e}", "", false)
            | .ok mt => (mt == realT, skeleton mt == skeleton realT, (if mt == realT then "" else firstTokDiff realT mt), skelString mt,
                         skeleton mt == skeleton (dirsToks model))
          { r1 with inFragment := true, rawSame := model.map NGF.RenderTie.showD == modelRaw.map NGF.RenderTie.showD,
                    toksEqual := eq, skelEqual := sk, diff := diff, modelSkel := msk, skelIntended := ski, dirsOK := Print.dirsOK model, dirsOKw := Print.dirsOKw model,
                    roundtrip := (match parse text with
                      | .ok ds => ds.map NGF.RenderTie.showD == model.map NGF.RenderTie.showD
                      | .error _ => false),
                    markModel := NGF.Inj.hasMarker text, modelChars := text.length }

end NGF.PrintTie
