/-
C05 (task C05-nil) — the IMPLICIT panic sites of the event path: optional-pointer dereferences, slice
indexing, map writes.  `translator/gen_panics_deref.go` regenerates the inventory from the type-checked
sources on every run (`NGF.Generated.PanicSites.derefSites`): one row per (function, nil-able expression,
dominating guard).  This file holds the DECISION the obligations and the driver share:

  `siteOk s` = the guard found by the translator is one that dominates the use (`acceptedGuards`), or the
               exact row is listed in the hand-written `justified` table with the reason it cannot fire for
               admissible objects (CRD default, CRD schema, CEL rule, the only callers check, constructed by
               NGF itself, an invariant of the validity flags, or mirrored + proved in `NGF.Model.PanicSites`
               / `NGF.Model.NilGuards`).

A row of `justified` repeats the WHOLE row of the inventory (file, function, class, expression, guard kind,
guard text — for `switch` rows the discriminator and the case, for parameters the guards of every caller —
and the number of uses), so a removed nil check, a new unguarded use, a caller that stops checking, or a
changed discriminator makes the row differ and `every_deref_guarded_or_justified` fail.  Core Lean only.
-/
namespace NGF.DerefSites

structure DerefSite where
  id        : Nat        -- 48-bit hash of the other columns, computed by the translator: compared first (cheap)
  file      : String
  fn        : String
  cls       : String     -- field | ifield | ptr-var | map-val | index | map-write
  expr      : String     -- the nil-able expression (for `index`: with the index shape, e.g. `s[0]`, `s[i]`)
  guardKind : String
  guard     : String
  n         : Nat        -- number of uses of `expr` in `fn` with this guard
  deriving DecidableEq, Repr

/-- guard kinds under which the use is dominated by a check of the same expression:
`if P != nil {…}`, the else branch of `P == nil`, `P != nil && …` / `P == nil || …`, a preceding
`if P == nil {return/continue/break/panic}`, a `case P != nil:` (or a later clause after `case P == nil:` /
`case !ok:`) of a tag-less switch or `switch len(P)`, a preceding assignment of `&…` / `make` / a literal,
`for i := range P` (or a sort comparator over P), `for …; i < len(P); …`, a `make`d local, and — for a pointer
parameter — every caller in the scanned packages passing a value guarded in one of these ways. -/
def acceptedGuards : List String :=
  ["if", "else", "short-circuit", "early-exit", "case", "assigned", "range", "for-len", "made", "callers"]

/-- why an unguarded (or only discriminator-guarded) site cannot fire for admissible objects -/
inductive Why
  | crdDefault          -- the CRD schema defaults the field, so the API server never stores it unset
  | crdSchema           -- required / minItems of the CRD schema
  | celRule             -- an x-kubernetes-validations rule ties the field to the discriminator
  | callerChecks        -- the check is there, in a form the syntactic analysis does not see (helper, caller, alias)
  | ngfConstructed      -- the value is created by NGF itself, always with this field set
  | validityInvariant   -- implied by a Valid / Resolved flag that is checked
  | mirrored            -- mirrored in the Lean model and proved unreachable (theorem named in the text)
  deriving DecidableEq, Repr

def Why.name : Why → String
  | .crdDefault => "crd-default" | .crdSchema => "crd-schema" | .celRule => "cel-rule"
  | .callerChecks => "caller-checks" | .ngfConstructed => "ngf-constructed"
  | .validityInvariant => "validity-invariant" | .mirrored => "mirrored"

structure Just where
  site : DerefSite
  why  : Why
  text : String
  deriving Repr

/-- THE HAND-WRITTEN TABLE.  Keep it sorted like the inventory (file, function, class, expression). -/
def justified : List Just :=
  [
    ⟨⟨126005770487904, "internal/mode/static/nginx/config/main_config.go", "GeneratorImpl.generateMgmtFiles", "ifield", "g.usageReportConfig",
       "none", "", 3⟩,
      .callerChecks, "reached only when g.plus; NewGeneratorImpl receives the usage-report config whenever Plus is on (StartManager builds it from flags that are required with --nginx-plus)"⟩,
    ⟨⟨179691310831906, "internal/mode/static/nginx/config/policies/validator.go", "NewManager", "map-write", "v.validators",
       "none", "", 1⟩,
      .ngfConstructed, "v.validators is make()-initialised in the composite literal of the same function"⟩,
    ⟨⟨151503960312096, "internal/mode/static/nginx/config/servers.go", "createSSLServer", "ifield", "virtualServer.SSL",
       "none", "", 2⟩,
      .ngfConstructed, "called for conf.SSLServers only; hostPathRules.buildServers sets SSL for every server of an HTTPS port"⟩,
    ⟨⟨182049400094994, "internal/mode/static/state/dataplane/configuration.go", "buildBaseHTTPConfig", "ifield", "g.NginxProxy.Source",
       "none", "", 10⟩,
      .ngfConstructed, "graph nodes are only created by the build*/process* constructors from a stored object, which always set Source"⟩,
    ⟨⟨271173221750992, "internal/mode/static/state/dataplane/configuration.go", "buildLogging", "ifield", "ngfProxy.Source",
       "none", "", 3⟩,
      .ngfConstructed, "graph nodes are only created by the build*/process* constructors from a stored object, which always set Source"⟩,
    ⟨⟨119538940768464, "internal/mode/static/state/dataplane/configuration.go", "buildPassthroughServers", "ifield", "g.Gateway",
       "none", "", 1⟩,
      .callerChecks, "BuildConfiguration returns the default configuration before calling this when g.Gateway == nil (or the GatewayClass is missing / invalid)"⟩,
    ⟨⟨164794805003238, "internal/mode/static/state/dataplane/configuration.go", "buildPassthroughServers", "ifield", "p.Attachment",
       "none", "", 1⟩,
      .ngfConstructed, "routes in listener.L4Routes went through bindL4RouteToListeners, whose loop sets Attachment on every parentRef (validateParentRef) before attaching"⟩,
    ⟨⟨9840060911913, "internal/mode/static/state/dataplane/configuration.go", "buildSSLKeyPairs", "ifield", "secret.Source",
       "none", "", 2⟩,
      .validityInvariant, "ResolvedSecret is set only when secretResolver.resolve succeeded, i.e. the Secret exists; the entry's Source is that Secret"⟩,
    ⟨⟨4513694178615, "internal/mode/static/state/dataplane/configuration.go", "buildSSLKeyPairs", "map-val", "secret",
       "none", "", 2⟩,
      .validityInvariant, "ResolvedSecret is set only after secretResolver.resolve stored an entry under that key; graph.ReferencedSecrets holds every resolved entry"⟩,
    ⟨⟨104798233149029, "internal/mode/static/state/dataplane/configuration.go", "buildServers", "ifield", "g.Gateway",
       "none", "", 2⟩,
      .callerChecks, "BuildConfiguration returns the default configuration before calling this when g.Gateway == nil (or the GatewayClass is missing / invalid)"⟩,
    ⟨⟨48079892630559, "internal/mode/static/state/dataplane/configuration.go", "buildServers", "map-write", "rulesForProtocol[l.Source.Protocol]",
       "none", "", 1⟩,
      .mirrored, "only valid non-TLS listeners reach the write; a listener is valid only for HTTP / HTTPS / TLS (getConfiguratorForListener marks every other protocol invalid): NilGuards.protocolMapWrite_total (Listener.valid_protocol)"⟩,
    ⟨⟨33139326148972, "internal/mode/static/state/dataplane/configuration.go", "buildTelemetry", "ifield", "g.Gateway",
       "none", "", 2⟩,
      .callerChecks, "BuildConfiguration returns the default configuration before calling this when g.Gateway == nil (or the GatewayClass is missing / invalid)"⟩,
    ⟨⟨127344360434087, "internal/mode/static/state/dataplane/configuration.go", "buildTelemetry", "ifield", "g.Gateway.Source",
       "none", "", 2⟩,
      .ngfConstructed, "graph nodes are only created by the build*/process* constructors from a stored object, which always set Source"⟩,
    ⟨⟨156060044498362, "internal/mode/static/state/dataplane/configuration.go", "buildTelemetry", "ifield", "g.NginxProxy.Source",
       "none", "", 3⟩,
      .ngfConstructed, "graph nodes are only created by the build*/process* constructors from a stored object, which always set Source"⟩,
    ⟨⟨53705863586580, "internal/mode/static/state/dataplane/configuration.go", "convertBackendTLS", "ifield", "btp.Source",
       "none", "", 1⟩,
      .ngfConstructed, "graph nodes are only created by the build*/process* constructors from a stored object, which always set Source"⟩,
    ⟨⟨266119334196933, "internal/mode/static/state/dataplane/configuration.go", "hostPathRules.upsertRoute", "field", "m.Path",
       "none", "", 2⟩,
      .mirrored, "CRD default path {PathPrefix, /}; ConvertGRPCMatches always sets it: upsertRule_total / nil_path_witness"⟩,
    ⟨⟨71594289316537, "internal/mode/static/state/dataplane/configuration.go", "hostPathRules.upsertRoute", "field", "m.Path.Type",
       "none", "", 2⟩,
      .mirrored, "rules with ValidMatches only: validatePathMatch rejects a nil type: upsertRule_total"⟩,
    ⟨⟨60917730931718, "internal/mode/static/state/dataplane/configuration.go", "hostPathRules.upsertRoute", "ifield", "p.Attachment",
       "none", "", 1⟩,
      .ngfConstructed, "routes in listener.Routes went through bindL7RouteToListeners, whose loop sets Attachment on every parentRef (validateParentRef) before attaching"⟩,
    ⟨⟨237971210527187, "internal/mode/static/state/dataplane/configuration.go", "hostPathRules.upsertRoute", "map-write", "hpr.listenersForHost",
       "none", "", 2⟩,
      .ngfConstructed, "newHostPathRules make()s both maps; hostPathRules values are only created there"⟩,
    ⟨⟨61318207977700, "internal/mode/static/state/dataplane/configuration.go", "hostPathRules.upsertRoute", "map-write", "hpr.rulesPerHost",
       "none", "", 1⟩,
      .ngfConstructed, "newHostPathRules make()s both maps; hostPathRules values are only created there"⟩,
    ⟨⟨62272160739566, "internal/mode/static/state/dataplane/convert.go", "convertHTTPHeaderFilter", "ptr-var", "filter",
       "none", "parameter; callers: createHTTPFilters[switch f.FilterType case graph.FilterRequestHeaderModifier]; createHTTPFilters[switch f.FilterType case graph.FilterResponseHeaderModifier]", 7⟩,
      .mirrored, "createHTTPFilters runs on rules with Filters.Valid only; validateFilter rejects a header-modifier filter without body (validateFilterHeaderModifier): NilGuards.Filter.convert_after_validate"⟩,
    ⟨⟨183201617176189, "internal/mode/static/state/dataplane/convert.go", "convertHTTPRequestRedirectFilter", "ptr-var", "filter",
       "none", "parameter; callers: createHTTPFilters[switch f.FilterType case graph.FilterRequestRedirect]", 5⟩,
      .mirrored, "createHTTPFilters runs on rules with Filters.Valid only; validateFilterRedirect rejects a nil body: NilGuards.Filter.convert_after_validate"⟩,
    ⟨⟨144692028777534, "internal/mode/static/state/dataplane/convert.go", "convertHTTPURLRewriteFilter", "ptr-var", "filter",
       "none", "parameter; callers: createHTTPFilters[switch f.FilterType case graph.FilterURLRewrite]", 2⟩,
      .mirrored, "createHTTPFilters runs on rules with Filters.Valid only; validateFilterRewrite rejects a nil body: NilGuards.Filter.convert_after_validate"⟩,
    ⟨⟨127988864636713, "internal/mode/static/state/dataplane/convert.go", "convertPathModifier", "field", "path.ReplaceFullPath",
       "switch", "switch path.Type case v1.FullPathHTTPPathModifier", 1⟩,
      .mirrored, "CEL union rule of HTTPPathModifier (type == ReplaceFullPath <=> replaceFullPath set): NilGuards.Filter.validate_total"⟩,
    ⟨⟨82136477341033, "internal/mode/static/state/dataplane/convert.go", "convertPathModifier", "field", "path.ReplacePrefixMatch",
       "switch", "switch path.Type case v1.PrefixMatchHTTPPathModifier", 1⟩,
      .mirrored, "CEL union rule of HTTPPathModifier (type == ReplacePrefixMatch <=> replacePrefixMatch set): NilGuards.Filter.validate_total"⟩,
    ⟨⟨164956176093058, "internal/mode/static/state/graph/backend_refs.go", "createBackendRef", "field", "ref.Namespace",
       "none", "", 1⟩,
      .callerChecks, "the enclosing `if ref.BackendRef.Namespace != nil` tests the same field through the embedded struct (Namespace is promoted from BackendRef.BackendObjectReference)"⟩,
    ⟨⟨140842388777298, "internal/mode/static/state/graph/backend_refs.go", "findBackendTLSPolicyForService", "ifield", "btp.Source",
       "none", "", 2⟩,
      .ngfConstructed, "graph nodes are only created by the build*/process* constructors from a stored object, which always set Source"⟩,
    ⟨⟨45550474899631, "internal/mode/static/state/graph/backend_refs.go", "getIPFamilyAndPortFromRef", "field", "ref.Port",
       "none", "", 1⟩,
      .mirrored, "both callers return before when validateBackendRef reports `port cannot be nil`; CEL requires a port for Service refs: NilGuards.BackendRef.pipeline_total"⟩,
    ⟨⟨103042229290249, "internal/mode/static/state/graph/backend_refs.go", "validateBackendTLSPolicyMatchingAllBackends", "field", "val2.WellKnownCACertificates",
       "none", "", 1⟩,
      .callerChecks, "the preceding disjunct `(val1.W == nil) != (val2.W == nil)` is false here and val1.W != nil, so val2.W != nil"⟩,
    ⟨⟨181565523584125, "internal/mode/static/state/graph/backend_refs.go", "validateBackendTLSPolicyMatchingAllBackends", "ifield", "p1.Source",
       "none", "", 2⟩,
      .ngfConstructed, "graph nodes are only created by the build*/process* constructors from a stored object, which always set Source"⟩,
    ⟨⟨86952268447070, "internal/mode/static/state/graph/backend_refs.go", "validateBackendTLSPolicyMatchingAllBackends", "ifield", "p2.Source",
       "none", "", 2⟩,
      .ngfConstructed, "graph nodes are only created by the build*/process* constructors from a stored object, which always set Source"⟩,
    ⟨⟨113327099596496, "internal/mode/static/state/graph/backend_tls_policy.go", "processBackendTLSPolicies", "ifield", "gateway.Source",
       "none", "", 2⟩,
      .ngfConstructed, "graph nodes are only created by the build*/process* constructors from a stored object, which always set Source"⟩,
    ⟨⟨250094361886401, "internal/mode/static/state/graph/backend_tls_policy.go", "validateBackendTLSWellKnownCACerts", "field", "btp.Spec.Validation.WellKnownCACertificates",
       "none", "", 1⟩,
      .callerChecks, "only caller validateBackendTLSPolicy calls it under `case wellKnownCerts != nil`"⟩,
    ⟨⟨15335502442313, "internal/mode/static/state/graph/common_filter.go", "validateFilterResponseHeaderModifier", "ptr-var", "responseHeaderModifier",
       "none", "parameter; callers: validateFilter[switch filter.FilterType case FilterResponseHeaderModifier]", 3⟩,
      .mirrored, "the first statement returns when validateFilterHeaderModifier reports the nil body: NilGuards.Filter.validate_total"⟩,
    ⟨⟨21698240869222, "internal/mode/static/state/graph/configmaps.go", "configMapResolver.resolve", "map-write", "r.resolvedCaCertConfigMaps",
       "none", "", 1⟩,
      .ngfConstructed, "newConfigMapResolver make()s the map; resolvers are only created there"⟩,
    ⟨⟨183049604151587, "internal/mode/static/state/graph/gateway_listener.go", "GetAllowedRouteLabelSelector", "field", "l.AllowedRoutes.Namespaces.From",
       "none", "", 1⟩,
      .crdDefault, "RouteNamespaces.from defaults to Same (mirrored as Site.nilFrom: bind_total needs FromSet)"⟩,
    ⟨⟨263270241092431, "internal/mode/static/state/graph/gateway_listener.go", "createExternalReferencesForTLSSecretsResolver", "field", "l.Source.TLS",
       "none", "", 1⟩,
      .mirrored, "the resolver runs only on listeners still valid after createHTTPSListenerValidator, which reports a nil tls / empty certificateRefs: NilGuards.Tls.resolve_after_validate"⟩,
    ⟨⟨209865889640740, "internal/mode/static/state/graph/gateway_listener.go", "createExternalReferencesForTLSSecretsResolver", "index", "l.Source.TLS.CertificateRefs[0]",
       "none", "", 1⟩,
      .mirrored, "the resolver runs only on listeners still valid after createHTTPSListenerValidator, which reports a nil tls / empty certificateRefs: NilGuards.Tls.resolve_after_validate"⟩,
    ⟨⟨279579813550391, "internal/mode/static/state/graph/gateway_listener.go", "createHTTPSListenerValidator", "field", "listener.TLS.Mode",
       "none", "", 2⟩,
      .crdDefault, "GatewayTLSConfig.mode defaults to Terminate (mirrored: NilGuards.Tls.validate_total needs the default)"⟩,
    ⟨⟨37579652394308, "internal/mode/static/state/graph/graph.go", "setPlusSecretContent", "index", "plusSecrets[name][i]",
       "none", "", 1⟩,
      .callerChecks, "i ranges over plusSecretFiles, which is plusSecrets[name] of the enclosing range"⟩,
    ⟨⟨50126794637546, "internal/mode/static/state/graph/httproute.go", "validateFilterRedirect", "field", "redirect.Path.ReplaceFullPath",
       "switch", "switch redirect.Path.Type case v1.FullPathHTTPPathModifier", 1⟩,
      .mirrored, "CEL union rule of HTTPPathModifier: NilGuards.Filter.validate_total"⟩,
    ⟨⟨237047235115632, "internal/mode/static/state/graph/httproute.go", "validateFilterRedirect", "field", "redirect.Path.ReplacePrefixMatch",
       "switch", "switch redirect.Path.Type case v1.PrefixMatchHTTPPathModifier", 1⟩,
      .mirrored, "CEL union rule of HTTPPathModifier: NilGuards.Filter.validate_total"⟩,
    ⟨⟨273387780794180, "internal/mode/static/state/graph/httproute.go", "validateFilterRewrite", "field", "rewrite.Path.ReplaceFullPath",
       "switch", "switch rewrite.Path.Type case v1.FullPathHTTPPathModifier", 1⟩,
      .mirrored, "CEL union rule of HTTPPathModifier: NilGuards.Filter.validate_total"⟩,
    ⟨⟨52618630834948, "internal/mode/static/state/graph/httproute.go", "validateFilterRewrite", "field", "rewrite.Path.ReplacePrefixMatch",
       "switch", "switch rewrite.Path.Type case v1.PrefixMatchHTTPPathModifier", 1⟩,
      .mirrored, "CEL union rule of HTTPPathModifier: NilGuards.Filter.validate_total"⟩,
    ⟨⟨27831140657246, "internal/mode/static/state/graph/nginxproxy.go", "buildNginxProxy", "field", "gc.Spec.ParametersRef",
       "none", "", 1⟩,
      .callerChecks, "inside `if gcReferencesAnyNginxProxy(gc)`, which returns false for a nil ParametersRef"⟩,
    ⟨⟨52685861099358, "internal/mode/static/state/graph/nginxproxy.go", "isNginxProxyReferenced", "field", "gc.Source.Spec.ParametersRef",
       "none", "", 1⟩,
      .callerChecks, "right of `gcReferencesAnyNginxProxy(gc.Source) &&`, which returns false for a nil ParametersRef"⟩,
    ⟨⟨209409261178075, "internal/mode/static/state/graph/nginxproxy.go", "isNginxProxyReferenced", "ifield", "gc.Source",
       "none", "", 1⟩,
      .ngfConstructed, "graph nodes are only created by the build*/process* constructors from a stored object, which always set Source"⟩,
    ⟨⟨51034505986927, "internal/mode/static/state/graph/policies.go", "checkForRouteOverlap", "map-write", "hostPortPaths",
       "none", "parameter", 1⟩,
      .callerChecks, "both callers pass a fresh map (the result of buildHostPortPaths / make)"⟩,
    ⟨⟨55771985700473, "internal/mode/static/state/graph/route_common.go", "bindToListenerL4", "ifield", "gw.Source",
       "none", "", 1⟩,
      .ngfConstructed, "graph nodes are only created by the build*/process* constructors from a stored object, which always set Source"⟩,
    ⟨⟨279901991407657, "internal/mode/static/state/graph/route_common.go", "bindToListenerL4", "map-write", "l.L4Routes",
       "none", "", 1⟩,
      .ngfConstructed, "buildListener / newListenerConfigurator create every Listener with make()d Routes and L4Routes maps"⟩,
    ⟨⟨149000703586195, "internal/mode/static/state/graph/route_common.go", "bindToListenerL4", "map-write", "portHostnamesMap",
       "none", "parameter", 1⟩,
      .callerChecks, "bindRoutesToListeners make()s the map and passes it down"⟩,
    ⟨⟨152651347914605, "internal/mode/static/state/graph/route_common.go", "bindToListenerL4", "map-write", "refStatus.AcceptedHostnames",
       "none", "", 1⟩,
      .ngfConstructed, "validateParentRef creates every ParentRefAttachmentStatus with a make()d AcceptedHostnames"⟩,
    ⟨⟨70849241050709, "internal/mode/static/state/graph/route_common.go", "isHTTP2Disabled", "ifield", "npCfg.Source",
       "none", "", 1⟩,
      .ngfConstructed, "graph nodes are only created by the build*/process* constructors from a stored object, which always set Source"⟩,
    ⟨⟨264850465120249, "internal/mode/static/state/graph/route_common.go", "isRouteNamespaceAllowedByListener", "field", "listener.Source.AllowedRoutes.Namespaces.From",
       "none", "", 1⟩,
      .crdDefault, "RouteNamespaces.from defaults to Same; mirrored as Site.nilFrom (bind_total needs FromSet)"⟩,
    ⟨⟨172681908024696, "internal/mode/static/state/graph/route_common.go", "tryToAttachL7RouteToListeners", "ifield", "gw.Source",
       "none", "", 1⟩,
      .ngfConstructed, "graph nodes are only created by the build*/process* constructors from a stored object, which always set Source"⟩,
    ⟨⟨21054032739724, "internal/mode/static/state/graph/route_common.go", "tryToAttachL7RouteToListeners", "map-write", "l.Routes",
       "none", "", 1⟩,
      .ngfConstructed, "buildListener / newListenerConfigurator create every Listener with make()d Routes and L4Routes maps"⟩,
    ⟨⟨6397747342110, "internal/mode/static/state/graph/route_common.go", "tryToAttachL7RouteToListeners", "map-write", "refStatus.AcceptedHostnames",
       "none", "", 1⟩,
      .ngfConstructed, "validateParentRef creates every ParentRefAttachmentStatus with a make()d AcceptedHostnames"⟩,
    ⟨⟨196983576970027, "internal/mode/static/state/graph/route_common.go", "validateParentRef", "ifield", "gw.Source",
       "none", "", 2⟩,
      .ngfConstructed, "graph nodes are only created by the build*/process* constructors from a stored object, which always set Source"⟩,
    ⟨⟨209629362727617, "internal/mode/static/state/graph/secret.go", "secretResolver.resolve", "map-write", "r.resolvedSecrets",
       "none", "", 1⟩,
      .ngfConstructed, "newSecretResolver make()s the map; resolvers are only created there"⟩,
    ⟨⟨233773896507095, "internal/mode/static/state/graph/tlsroute.go", "validateBackendRefTLSRoute", "index", "gtr.Spec.Rules[0]",
       "none", "", 2⟩,
      .callerChecks, "buildTLSRoute returns before when len(Rules) != 1 || len(Rules[0].BackendRefs) != 1"⟩,
    ⟨⟨239952063927843, "internal/mode/static/state/graph/tlsroute.go", "validateBackendRefTLSRoute", "index", "gtr.Spec.Rules[0].BackendRefs[0]",
       "none", "", 2⟩,
      .callerChecks, "buildTLSRoute returns before when len(Rules) != 1 || len(Rules[0].BackendRefs) != 1"⟩,
    ⟨⟨142077470074977, "internal/mode/static/state/resolver/resolver.go", "resolveEndpoints", "map-write", "endpointSet",
       "none", "", 1⟩,
      .ngfConstructed, "initEndpointsSet returns a make()d map"⟩,
    ⟨⟨49828022671268, "internal/mode/static/state/store.go", "ngfPolicyObjectStore.upsert", "map-write", "p.policies",
       "none", "", 1⟩,
      .ngfConstructed, "newNGFPolicyObjectStore receives the ClusterState map that NewChangeProcessorImpl make()s"⟩,
    ⟨⟨165295355613479, "internal/mode/static/state/store.go", "objectStoreMapAdapter.upsert", "map-write", "m.objects",
       "none", "", 1⟩,
      .ngfConstructed, "newObjectStoreMapAdapter wraps the ClusterState maps that NewChangeProcessorImpl make()s"⟩,
    ⟨⟨9370040992067, "internal/mode/static/status/prepare_requests.go", "PrepareBackendTLSPolicyRequests", "ifield", "pol.Source",
       "none", "", 1⟩,
      .ngfConstructed, "graph nodes are only created by the build*/process* constructors from a stored object, which always set Source"⟩,
    ⟨⟨257156416507615, "internal/mode/static/status/prepare_requests.go", "PrepareGatewayClassRequests", "ifield", "gc.Source",
       "none", "", 1⟩,
      .ngfConstructed, "graph nodes are only created by the build*/process* constructors from a stored object, which always set Source"⟩,
    ⟨⟨188308701293824, "internal/mode/static/status/prepare_requests.go", "prepareGatewayRequest", "ifield", "gateway.Source",
       "none", "", 3⟩,
      .ngfConstructed, "graph nodes are only created by the build*/process* constructors from a stored object, which always set Source"⟩,
    ⟨⟨194397062443251, "internal/mode/static/status/prepare_requests.go", "prepareRouteStatus", "ifield", "ref.Attachment",
       "none", "", 1⟩,
      .callerChecks, "used only when failedAttachmentCondCount == 1, which is set under `ref.Attachment != nil` a few lines above"⟩]

def guarded (s : DerefSite) : Bool := acceptedGuards.contains s.guardKind

/-- Rows are matched by `id`, the translator's hash of ALL the other columns (file, function, class, expression,
guard kind, guard text, use count): comparing numbers is cheap for the kernel, comparing a few hundred long
strings is not (≈ 0.7 ms per character).  That the TEXT of a matched justification row equals the inventory row
is checked by the compiled driver on every run (`verdict` answers `justified-text-differs` otherwise, which the
check reports as a broken tie). -/
def justifiedIds : List Nat := justified.map (·.site.id)

/-- the decision shared by the obligation `every_deref_guarded_or_justified` and the driver -/
def siteOk (s : DerefSite) : Bool := guarded s || justifiedIds.contains s.id

def justification (s : DerefSite) : Option Just := justified.find? (fun j => j.site.id == s.id)

def ofTuple (t : Nat × String × String × String × String × String × String × Nat) : DerefSite :=
  ⟨t.1, t.2.1, t.2.2.1, t.2.2.2.1, t.2.2.2.2.1, t.2.2.2.2.2.1, t.2.2.2.2.2.2.1, t.2.2.2.2.2.2.2⟩

/-- driver answer for one row: `siteOk` decides, the rest is explanation -/
def verdict (s : DerefSite) : String :=
  if !siteOk s then "UNJUSTIFIED"
  else if guarded s then "guarded"
  else match justification s with
    | some j => if j.site == s then "justified " ++ j.why.name else "justified-text-differs"
    | none => "justified"

end NGF.DerefSites
