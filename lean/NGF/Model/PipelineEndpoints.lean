/-
C13 (deepening round) — EndpointSlices INSIDE the pipeline model.

`ScenarioE` is the cluster of `PipelineRefs.ScenarioR` (Gateways, HTTPRoutes with backendRefs as written, Services,
ReferenceGrants; Model/PipelineRefs.lean, C06) plus the `spec.ports` entries of the Services as far as the endpoint
resolver reads them (name, targetPort) and the cluster's EndpointSlices.  `upstreamsOf : ScenarioE → List Up` follows

  dataplane/configuration.go: buildUpstreams — for every valid listener of the served Gateway, every route attached
      to it (`l.Routes`), `route.Valid`, every rule (`ValidMatches`, `Filters.Valid`: always true in the fragment), every
      `br.Valid` backendRef: `upstreamName := br.ServicePortReference()`, skipped when already present, otherwise
      `Endpoints := svcResolver.Resolve(ctx, br.SvcNsName, br.ServicePort, allowedAddressType)` (error ⇒ nil)
      → `backends`, `toUp`, `dedupByName`; `resolve` / `upstreamEndpoints` are the functions of Model/Resolver.lean (C13)
  nginx/config/upstreams.go: createUpstreams / createUpstream (503 placeholder when empty, OSS),
      createInvalidBackendRefUpstream → `httpUpstreams`

so that the `upstream` blocks of the generated http.conf of the cluster `c` are `httpUpstreams c`, next to
`PipelineRefs.genR c.base` (servers / locations / proxy_pass targets) of the same cluster.

The fragment has no NginxProxy: `buildBaseHTTPConfig` leaves `IPFamily = Dual`, so both address types are allowed.
A Go map is modelled as a duplicate-free list (first insertion kept; the order is never part of a statement).
Core-only.  Theorems: NGF/Props/C13.lean §7 (helpers NGF/Proofs/PipelineEndpoints.lean).
-/
import NGF.Model.PipelineRefs
import NGF.Model.Resolver

namespace NGF.PipelineEndpoints
open NGF.Pipeline NGF.PipelineRefs
open NGF.RefGrant (BackendRef GBackendRef Grant)
open NGF.Resolver (Slice SvcPort Up NgxUpstream)

/-- one `spec.ports` entry of a Service as the resolver reads it -/
structure PortInfo where
  ns : String
  name : String
  sp : SvcPort
  deriving DecidableEq, Repr

structure ScenarioE where
  base : ScenarioR
  /-- `spec.ports` entries of the Services (the first entry of a Service with a port number is the one
  `getServicePort` returns); a port without an entry here is an unnamed port without targetPort -/
  ports : List PortInfo
  /-- the cluster's EndpointSlices -/
  slices : List Slice
  deriving Repr

/-- `BackendRef.ServicePort` of the graph: the `v1.ServicePort` `getServicePort` found for the port number -/
def servicePort (c : ScenarioE) (ns name : String) (port : Nat) : SvcPort :=
  match c.ports.find? (fun i => i.ns == ns && i.name == name && i.sp.port == port) with
  | some i => i.sp
  | none => ⟨"", port, .int 0⟩

/-- the `br.Valid` graph backendRefs of one route, in rule / backendRef order -/
def routeBackends (c : ScenarioE) (r : RouteR) : List GBackendRef :=
  r.rules.flatMap fun ru =>
    match ru.action with
    | .redirect .. => []
    | .forward refs => (refs.map (resolveRef c.base.grants c.base.services r.ns)).filter (·.valid)

/-- the route is in `l.Routes` and `route.Valid` -/
def attachedAt (g : Gateway) (l : Listener) (r : RouteR) : Bool := r.valid && !(acceptedAtR g l r).isEmpty

/-- every valid backendRef `buildUpstreams` visits: listeners of the served Gateway, attached valid routes, rules, refs -/
def backends (c : ScenarioE) : List GBackendRef :=
  match winner (resolve c.base) with
  | none => []
  | some g => g.listeners.flatMap fun l => (c.base.routes.filter (attachedAt g l)).flatMap (routeBackends c)

/-- `Upstream{Name: br.ServicePortReference(), Endpoints: Resolve(br.SvcNsName, br.ServicePort, [IPv4, IPv6])}` -/
def toUp (c : ScenarioE) (b : GBackendRef) : Up :=
  { name := RefGrant.servicePortReference b
    eps := Resolver.upstreamEndpoints c.slices b.svcNs b.svcName (servicePort c b.svcNs b.svcName b.port) .dual }

/-- `uniqueUpstreams[upstreamName]`: the first upstream of a name is kept -/
def dedupByName : List Up → List String → List Up
  | [], _ => []
  | u :: r, seen => if u.name ∈ seen then dedupByName r seen else u :: dedupByName r (u.name :: seen)

/-- `Configuration.Upstreams` of the cluster -/
def upstreamsOf (c : ScenarioE) : List Up := dedupByName ((backends c).map (toUp c)) []

def nginx500Server : String := "unix:/var/run/nginx/nginx-500-server.sock"

/-- `createInvalidBackendRefUpstream` -/
def invalidBackendRefUpstream : NgxUpstream :=
  { name := "invalid-backend-ref", zoneSize := "", stateFile := "", servers := [nginx500Server] }

/-- `createUpstreams` (NGINX OSS): the `upstream` blocks of http.conf -/
def httpUpstreams (c : ScenarioE) : List NgxUpstream :=
  (upstreamsOf c).map (Resolver.createUpstream false) ++ [invalidBackendRefUpstream]

/-! ### specification vocabulary -/

/-- Service `ns/name` is referenced by a backendRef (namespace defaulted to the route's) of a rule of a valid route
attached to the served Gateway -/
def Referenced (c : ScenarioE) (ns name : String) : Prop :=
  ∃ g, winner (resolve c.base) = some g ∧ ∃ r ∈ c.base.routes, attached g r = true ∧ ∃ ru ∈ r.rules, ∃ refs,
    ru.action = .forward refs ∧ ∃ ref ∈ refs, RefGrant.refNs ref r.ns = ns ∧ ref.name = name

/-- the slice carries the label of Service `ns/name` -/
def sliceOf (s : Slice) (ns name : String) : Bool := decide (s.ns = ns) && decide (s.svcLabel = some name)

/-- what `Resolve` needs not to panic, for every Service port a route can reach: non-empty namespaces and names,
no Service port 0 -/
def wfE (c : ScenarioE) : Bool :=
  c.base.services.all (fun s => s.ports.all (· != 0)) &&
  c.base.routes.all fun r => r.ns != "" && r.rules.all fun ru =>
    match ru.action with
    | .redirect .. => true
    | .forward refs => refs.all fun ref => ref.name != "" && ref.ns != some ""

end NGF.PipelineEndpoints
