/-
C18 — model of `internal/mode/provisioner` (`handler.go`, `store.go`, `deployment.go`).

State follows the Go fields one to one:
  `gws`, `gcs`      = `store.gateways` (key ↦ `Spec.GatewayClassName`) and `store.gatewayClasses` (keys)
  `prov`            = `eventHandler.provisions` (Gateway key ↦ the Deployment object created for it)
  `nextID`          = `eventHandler.gatewayNextID`
  `cluster`         = the Deployments held by the API server behind `k8sClient` (Create/Delete)
  `statuses`        = the GatewayClass statuses handed to `statusUpdater.Update` by the last batch
  `crashed`         = the handler panicked (the process is gone; nothing is handled afterwards)

Go ranges over maps in an unspecified order. The only place where the order is observable is the
first loop of `ensureDeploymentsMatchGateways` (it decides which Gateway gets which id), so `step`
takes an explicit `order` argument and every theorem quantifies over it.

Strings are `List Char` (core lemmas); the driver converts.
-/
namespace NGF.Prov

abbrev Str := List Char

/-- `types.NamespacedName` of a Gateway. -/
structure Key where
  ns   : Str
  name : Str
  deriving DecidableEq, Repr

inductive Ev
  | upsertGw (k : Key) (cls : Str)   -- UpsertEvent{*v1.Gateway}; cls = Spec.GatewayClassName
  | deleteGw (k : Key)               -- DeleteEvent{Type: *v1.Gateway}
  | upsertGC (n : Str)               -- UpsertEvent{*v1.GatewayClass}
  | deleteGC (n : Str)               -- DeleteEvent{Type: *v1.GatewayClass}
  | crd                              -- upsert/delete of CRD metadata (stored; read only by ValidateCRDVersions)
  deriving DecidableEq, Repr

/-- The fields of the created `v1.Deployment` that `prepareDeployment` sets. -/
structure Dep where
  name   : Str        -- ObjectMeta.Name
  selApp : Str        -- Spec.Selector.MatchLabels["app"]
  podApp : Str        -- Spec.Template.ObjectMeta.Labels["app"]
  args   : List Str   -- Spec.Template.Spec.Containers[0].Args
  deriving DecidableEq, Repr

/-- (type, status, reason) of a condition. -/
structure Cond where
  type   : Str
  status : Bool
  reason : Str
  deriving DecidableEq, Repr

inductive Crash
  | gcAbsent       -- panic(fmt.Errorf("GatewayClass %s must exist", h.gcName))
  | createFailed   -- panic("failed to create deployment") : name already taken in the cluster
  | deleteFailed   -- panic("failed to delete deployment") : no such Deployment in the cluster
  deriving DecidableEq, Repr

/-- Constructor arguments of `newEventHandler` that matter: `gcName` and the args of container 0
of the static-mode Deployment manifest. -/
structure Cfg where
  gcName : Str
  tmpl   : List Str

structure State where
  gws      : List (Key × Str)
  gcs      : List Str
  prov     : List (Key × Dep)
  nextID   : Nat
  cluster  : List Dep
  statuses : List (Str × List Cond)
  crashed  : Option Crash
  deriving Repr

/-- `newEventHandler`: empty store, empty provisions, `gatewayNextID: 1`. -/
def init : State :=
  { gws := [], gcs := [], prov := [], nextID := 1, cluster := [], statuses := [], crashed := none }

/-! ### maps as association lists -/

def hasKey {α β} [DecidableEq α] (l : List (α × β)) (k : α) : Bool := l.any (fun p => p.1 == k)

def get? {α β} [DecidableEq α] (l : List (α × β)) (k : α) : Option β :=
  (l.find? (fun p => p.1 == k)).map (·.2)

/-- `delete(m, k)` -/
def erase {α β} [DecidableEq α] (l : List (α × β)) (k : α) : List (α × β) := l.filter (fun p => p.1 != k)

/-- `m[k] = v` -/
def upsert {α β} [DecidableEq α] (l : List (α × β)) (k : α) (v : β) : List (α × β) := erase l k ++ [(k, v)]

/-! ### store.update -/

def storeUpdate1 (s : State) : Ev → State
  | .upsertGw k c => { s with gws := upsert s.gws k c }
  | .deleteGw k   => { s with gws := erase s.gws k }
  | .upsertGC n   => { s with gcs := s.gcs.filter (· != n) ++ [n] }
  | .deleteGC n   => { s with gcs := s.gcs.filter (· != n) }
  | .crd          => s

def storeUpdate (s : State) (b : List Ev) : State := b.foldl storeUpdate1 s

/-! ### setGatewayClassStatuses -/

def tAccepted : Str := ['A','c','c','e','p','t','e','d']
def tSupportedVersion : Str := ['S','u','p','p','o','r','t','e','d','V','e','r','s','i','o','n']
def rConflict : Str := ['G','a','t','e','w','a','y','C','l','a','s','s','C','o','n','f','l','i','c','t']

/-- `conditions.NewDefaultGatewayClassConditions()` -/
def defaultConds : List Cond :=
  [⟨tAccepted, true, tAccepted⟩, ⟨tSupportedVersion, true, tSupportedVersion⟩]

/-- `conditions.NewGatewayClassConflict()` -/
def conflictCond : Cond := ⟨tAccepted, false, rConflict⟩

/-- `conditions.DeduplicateConditions`: of several conditions of one type the last one survives,
relative order kept. -/
def dedupLast : List Cond → List Cond
  | [] => []
  | c :: cs => if cs.any (fun d => d.type == c.type) then dedupLast cs else c :: dedupLast cs

/-- the conditions computed for one stored GatewayClass (CRD versions supported: no extra conditions) -/
def gcConds (cfg : Cfg) (n : Str) : List Cond :=
  dedupLast (if n = cfg.gcName then defaultConds else defaultConds ++ [conflictCond])

def setStatuses (cfg : Cfg) (s : State) : State :=
  if s.gcs.contains cfg.gcName then
    { s with statuses := s.gcs.map (fun n => (n, gcConds cfg n)) }
  else
    { s with crashed := some .gcAbsent }

/-! ### generateDeploymentID / prepareDeployment -/

/-- "nginx-gateway-" of `fmt.Sprintf("nginx-gateway-%d", id)` -/
def idPrefix : Str := ['n','g','i','n','x','-','g','a','t','e','w','a','y','-']
def gwFlag : Str := ['-','-','g','a','t','e','w','a','y','=']
def updFlag : Str :=
  ['-','-','u','p','d','a','t','e','-','g','a','t','e','w','a','y','c','l','a','s','s','-','s','t','a','t','u','s','=',
   'f','a','l','s','e']
def lockNeedle : Str :=
  ['l','e','a','d','e','r','-','e','l','e','c','t','i','o','n','-','l','o','c','k','-','n','a','m','e']
def lockFlag : Str := ['-','-'] ++ lockNeedle ++ ['=']

def idName (i : Nat) : Str := idPrefix ++ Nat.toDigits 10 i

/-- `types.NamespacedName.String()` -/
def gwString (k : Key) : Str := k.ns ++ '/' :: k.name

/-- `strings.Contains(s, p)` -/
def isInfix (p : Str) : Str → Bool
  | [] => p.isEmpty
  | c :: cs => p.isPrefixOf (c :: cs) || isInfix p cs

def rewriteArg (k : Key) (a : Str) : Str :=
  if isInfix lockNeedle a then lockFlag ++ k.name else a

/-- one iteration of `for _, arg := range dep.Spec.Template.Spec.Containers[0].Args`: the arg is matched by
SUBSTRING (`strings.Contains(arg, "leader-election-lock-name")`), not by the prefix `--leader-election-lock-name=`;
a match appends `"--leader-election-lock-name=" + gwNsName.Name`, anything else is appended unchanged -/
def argStep (k : Key) (finalArgs : List Str) (arg : Str) : List Str :=
  if isInfix lockNeedle arg then finalArgs ++ [lockFlag ++ k.name] else finalArgs ++ [arg]

/-- the args of container 0 as `prepareDeployment(depYAML, id, gwNsName)` builds them, statement by statement:
`finalArgs := []string{"--gateway=" + gwNsName.String(), "--update-gatewayclass-status=false"}`, then the loop over
the TEMPLATE's args only (the two fresh args are not scanned). `id` is a parameter of the Go function that the
args do not read. -/
def prepareArgs (tmpl : List Str) (k : Key) (_id : Str) : List Str :=
  tmpl.foldl (argStep k) [gwFlag ++ gwString k, updFlag]

/-- NOT the code in the tree: the refactoring "build the whole list first, then rewrite in place every arg that
contains the needle" (seeded change C18-r4m2) — the scan also covers the fresh `--gateway=<ns>/<name>` arg.
Kept to be refuted (`Props.C18.scan_all_variant_loses_gateway_flag`). -/
def prepareArgsScanAll (tmpl : List Str) (k : Key) (_id : Str) : List Str :=
  ((gwFlag ++ gwString k) :: updFlag :: tmpl).map (rewriteArg k)

def prepare (tmpl : List Str) (i : Nat) (k : Key) : Dep :=
  { name := idName i, selApp := idName i, podApp := idName i,
    args := prepareArgs tmpl k (idName i) }

/-! ### names: RFC 1123 label (namespace) and subdomain (Gateway name), as `k8s.io/apimachinery/pkg/util/validation`
`IsDNS1123Label` / `IsDNS1123Subdomain` decide them (tied by the harness stream `K`) -/

def isAlnumLower (c : Char) : Bool := c.isLower || c.isDigit

/-- `[a-z0-9]([-a-z0-9]*[a-z0-9])?`, at most 63 characters -/
def dnsLabel (s : Str) : Bool :=
  !s.isEmpty && s.length ≤ 63 && s.all (fun c => isAlnumLower c || c == '-') &&
  (s.head?.map isAlnumLower).getD false && (s.getLast?.map isAlnumLower).getD false

/-- split at every '.' -/
def splitDots : Str → List Str
  | [] => [[]]
  | c :: cs =>
    match splitDots cs with
    | [] => [[c]]     -- unreachable
    | p :: ps => if c == '.' then [] :: p :: ps else (c :: p) :: ps

/-- labels joined by '.', at most 253 characters (each label `[a-z0-9]([-a-z0-9]*[a-z0-9])?`, NO 63 limit per label:
that is what the subdomain regexp of apimachinery says) -/
def dnsSubdomain (s : Str) : Bool :=
  s.length ≤ 253 && (splitDots s).all (fun l =>
    !l.isEmpty && l.all (fun c => isAlnumLower c || c == '-') &&
    (l.head?.map isAlnumLower).getD false && (l.getLast?.map isAlnumLower).getD false)

/-- a Gateway key the API server admits: namespace = DNS-1123 label, name = DNS-1123 subdomain -/
def dnsKey (k : Key) : Bool := dnsLabel k.ns && dnsSubdomain k.name

/-! ### ensureDeploymentsMatchGateways -/

/-- the order in which Go happens to range over the candidates: those named in `order` first (in
that order), the others after. For every `order` the result is a permutation of `cands`. -/
def arrange : List Key → List Key → List Key
  | [], cands => cands
  | k :: order, cands =>
    if k ∈ cands then k :: arrange order (cands.filter (· != k)) else arrange order cands

/-- first loop: Gateways of the class that have no entry in `provisions` -/
def gwsWithoutDeps (cfg : Cfg) (s : State) : List Key :=
  (s.gws.filter (fun p => p.2 == cfg.gcName && !hasKey s.prov p.1)).map (·.1)

/-- a removal scan: which entries of `provisions` the second loop collects -/
abbrev Removal := Cfg → State → List Key

/-- second loop (current code, commit bb91ad6): entries of `provisions` whose Gateway is not in the
store or no longer names the configured class -/
def removedGwsWithDeps : Removal := fun cfg s =>
  (s.prov.filter (fun p => get? s.gws p.1 != some cfg.gcName)).map (·.1)

/-- second loop as it was BEFORE bb91ad6 (regression detector, finding
C18:deployment-kept-after-class-change): only entries whose Gateway is not in the store -/
def removedPreFix : Removal := fun _ s =>
  (s.prov.filter (fun p => !hasKey s.gws p.1)).map (·.1)

/-- body of the "create new deployments" loop -/
def createOne (cfg : Cfg) (s : State) (k : Key) : State :=
  if s.crashed.isSome then s else
  let d := prepare cfg.tmpl s.nextID k
  let s := { s with nextID := s.nextID + 1 }
  if s.cluster.any (fun e => e.name == d.name) then { s with crashed := some .createFailed }
  else { s with cluster := s.cluster ++ [d], prov := upsert s.prov k d }

/-- body of the "remove unnecessary deployments" loop -/
def deleteOne (s : State) (k : Key) : State :=
  if s.crashed.isSome then s else
  match get? s.prov k with
  | none => s
  | some d =>
    if s.cluster.any (fun e => e.name == d.name) then
      { s with cluster := s.cluster.filter (fun e => e.name != d.name), prov := erase s.prov k }
    else { s with crashed := some .deleteFailed }

def ensureWith (rem : Removal) (cfg : Cfg) (s : State) (order : List Key) : State :=
  let without := arrange order (gwsWithoutDeps cfg s)
  let removed := rem cfg s
  removed.foldl deleteOne (without.foldl (createOne cfg) s)

/-- `HandleEventBatch`: store.update, setGatewayClassStatuses, ensureDeploymentsMatchGateways. -/
def stepWith (rem : Removal) (cfg : Cfg) (s : State) (b : List Ev) (order : List Key) : State :=
  if s.crashed.isSome then s else
  let s1 := setStatuses cfg (storeUpdate s b)
  if s1.crashed.isSome then s1 else ensureWith rem cfg s1 order

def runWith (rem : Removal) (cfg : Cfg) (s : State) : List (List Ev × List Key) → State
  | [] => s
  | (b, o) :: rest => runWith rem cfg (stepWith rem cfg s b o) rest

/-- the code in the tree -/
abbrev ensure := ensureWith removedGwsWithDeps
abbrev step := stepWith removedGwsWithDeps
abbrev run := runWith removedGwsWithDeps

/-- the code before bb91ad6; a tree that behaves like this is reported as
C18:deployment-kept-after-class-change -/
abbrev stepPreFix := stepWith removedPreFix
abbrev runPreFix := runWith removedPreFix

end NGF.Prov
