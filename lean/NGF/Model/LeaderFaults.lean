/-
C09 — `Updater.Update(ctx, reqs...)` under API failures, and the property restricted to healthy resources.

The Go loop attempts every request in turn (`writeStatuses`: up to 4 tries with exponential backoff; the
outcome — written, gave up, resource gone — is only logged): a request whose resource cannot be written does
not stop the requests after it.  `attempt fails` is that loop (which requests reach the API server);
`attemptStop` is the refuted variant that returns at the first request that could not be written.

For the judges: a history is restricted to the resources that are NOT scripted to fail (`History.restrict`,
`WStep.restrict`) and the unchanged judges (`judge`, `judgeW`) are applied: every request of a
flushed / submitted group whose resource is healthy must be written, newest status, whatever happens to the
failing ones; nothing before `Enable`.
-/
import NGF.Model.LeaderJudge
import NGF.Model.LeaderWiringJudge
namespace NGF.Leader

/-- the requests of one `Updater.Update` call that are written: every one whose resource does not fail -/
def attempt (fails : Req → Bool) (reqs : List Req) : List Req := reqs.filter fun t => !fails t

/-- REFUTED variant: give up the whole call at the first request that could not be written -/
def attemptStop (fails : Req → Bool) (reqs : List Req) : List Req := reqs.takeWhile fun t => !fails t

/-- what reaches the API server of the `Updater.Update` calls an operation makes -/
def outcome (fails : Req → Bool) : Out → Out
  | .writes ws => .writes (ws.map fun w => (w.1, attempt fails w.2))
  | .panic => .panic

def outcomeStop (fails : Req → Bool) : Out → Out
  | .writes ws => .writes (ws.map fun w => (w.1, attemptStop fails w.2))
  | .panic => .panic

/-- calls without any written request are not observable -/
def visible : Out → Out
  | .writes ws => .writes (ws.filter fun w => !w.2.isEmpty)
  | .panic => .panic

/-- the same operation as seen by the healthy resources only -/
def restrictOp (fails : Req → Bool) : Op → Op
  | .update g r => .update g (attempt fails r)
  | .enable o => .enable o

def restrictOps (fails : Req → Bool) (ops : List Op) : List Op := ops.map (restrictOp fails)

def History.restrict (bad : List Req) (h : History) : History :=
  { h with ops := h.ops.map fun o => { o with reqs := o.reqs.filter fun t => !bad.contains t } }

/-- the property on a history with scripted failures `bad` -/
def judgeF (bad : List Req) (h : History) : Option String := judge (h.restrict bad)

def WStep.restrict (bad : List (Nat × Nat × Nat)) (s : WStep) : WStep :=
  { s with want := s.want.map fun gs => gs.map fun l => l.filter fun r => !bad.contains r.key,
           wrote := s.wrote.filter fun r => !bad.contains r.key }

def judgeWF (bad : List (Nat × Nat × Nat)) (steps : List WStep) : Option String :=
  judgeW (steps.map (·.restrict bad))

end NGF.Leader
