import NGF.Model.Resolver
/-
C13 — the property itself, as executable judges over the REAL code's outputs (used by the driver's `judge`
mode) and as the declarative set the theorems of `Props/C13.lean` relate the model to.

Reading of the statement (recorded in notes/C13.md):
* a slice *belongs to* the Service when it lives in the Service's namespace and carries the label
  `kubernetes.io/service-name` with the Service's name;
* it has an *allowed IP family* when its address type is one of the allowed types and is not FQDN;
* it *exposes the referenced port* when one of its EndpointPorts has the ServicePort's name (the port it
  publishes is that entry's number), or has no number at all ("all ports": the published port is the
  ServicePort's integer targetPort, else its port).  When a slice has both kinds of entries the statement
  does not say which wins: the judge accepts either, the theorems say exactly which one the code takes;
* an EndpointPort without a name (`nil`) matches no ServicePort (the API server defaults it to "");
  EndpointPort number 0 is not admissible in Kubernetes: inputs containing it are judged `skip`.
-/
namespace NGF.Resolver

/-- the port numbers a slice can be said to publish for the ServicePort -/
def candidatePorts (ports : List EndpointPort) (sp : SvcPort) : List Nat :=
  ports.filterMap fun p =>
    match p.port with
    | none => some (getDefaultPort sp)
    | some n => if p.name = some sp.name then some n else none

/-- an EndpointPort entry *answers* for the ServicePort: it has no number ("all ports") or carries its name -/
def hitsB (sp : SvcPort) (p : EndpointPort) : Bool := p.port.isNone || decide (p.name = some sp.name)

/-- the number such an entry stands for -/
def hitValue (sp : SvcPort) (p : EndpointPort) : Nat :=
  match p.port with
  | none => getDefaultPort sp
  | some n => n

/-- The port a slice publishes for the ServicePort, as the code reads it: the value of the FIRST entry
that answers for the ServicePort; `none` when there is no such entry (or its number is 0). -/
def publishedPort (ports : List EndpointPort) (sp : SvcPort) : Option Nat :=
  match ports.find? (hitsB sp) with
  | some p => if hitValue sp p = 0 then none else some (hitValue sp p)
  | none => none

/-- The declarative set of the property statement: `e` is a ready address of a slice that belongs to the
Service, has an allowed (non-FQDN) address type and publishes the referenced port, with that port. -/
def InSpec (all : List Slice) (ns name : String) (sp : SvcPort) (allowed : List AddrType) (e : Ep) : Prop :=
  ∃ s ∈ all, s.ns = ns ∧ s.svcLabel = some name ∧ s.addrType ≠ .fqdn ∧ s.addrType ∈ allowed ∧
    publishedPort s.ports sp = some e.port ∧ e.ipv6 = decide (s.addrType = .ipv6) ∧
    ∃ ep ∈ s.endpoints, ep.ready = some true ∧ e.address ∈ ep.addresses

def belongs (s : Slice) (ns name : String) : Bool :=
  decide (s.ns = ns) && decide (s.svcLabel = some name)

def eligible (s : Slice) (allowed : List AddrType) : Bool :=
  decide (s.addrType ≠ .fqdn) && decide (s.addrType ∈ allowed)

def readyAddrs (s : Slice) : List String :=
  (s.endpoints.filter fun e => decide (e.ready = some true)).flatMap (·.addresses)

/-- the slices the property statement talks about -/
def relevant (all : List Slice) (ns name : String) (allowed : List AddrType) : List Slice :=
  all.filter fun s => belongs s ns name && eligible s allowed

def zeroPort (s : Slice) : Bool := s.ports.any fun p => decide (p.port = some 0)

/-- precondition of `Resolve` + Kubernetes admissibility of the port numbers -/
def admissible (all : List Slice) (ns name : String) (sp : SvcPort) (allowed : List AddrType) : Bool :=
  decide (sp.port ≠ 0) && decide (name ≠ "") && decide (ns ≠ "") &&
  !((relevant all ns name allowed).any zeroPort)

def epOfSlice (s : Slice) (sp : SvcPort) (e : Ep) : Bool :=
  decide (e.ipv6 = decide (s.addrType = .ipv6)) && decide (e.address ∈ readyAddrs s) &&
  decide (e.port ∈ candidatePorts s.ports sp)

/-- every returned endpoint is a ready address of a relevant slice with a port that slice publishes -/
def judgeSound (rel : List Slice) (sp : SvcPort) (out : List Ep) : Bool :=
  out.all fun e => rel.any fun s => epOfSlice s sp e

/-- every ready address of every relevant slice that exposes the port is returned -/
def judgeComplete (rel : List Slice) (sp : SvcPort) (out : List Ep) : Bool :=
  rel.all fun s =>
    (candidatePorts s.ports sp).isEmpty ||
    (readyAddrs s).all fun a =>
      out.any fun e => decide (e.address = a) && decide (e.ipv6 = decide (s.addrType = .ipv6)) &&
        decide (e.port ∈ candidatePorts s.ports sp)

def nodupB {α} [DecidableEq α] : List α → Bool
  | [] => true
  | a :: l => !decide (a ∈ l) && nodupB l

/-- failed clauses of the resolution part of the property (empty = holds) -/
def judgeResolve (all : List Slice) (ns name : String) (sp : SvcPort) (allowed : List AddrType)
    (out : List Ep) : List String :=
  let rel := relevant all ns name allowed
  (if nodupB out then [] else ["resolve_duplicates"]) ++
  (if judgeSound rel sp out then [] else ["resolve_unsound"]) ++
  (if judgeComplete rel sp out then [] else ["resolve_incomplete"])

/-- same set (both directions), used for server lists -/
def sameSet (a b : List String) : Bool :=
  a.all (fun x => decide (x ∈ b)) && b.all (fun x => decide (x ∈ a))

/-- The servers NGINX balances across for an upstream whose resolved endpoints are `eps`:
exactly the endpoints' addresses, and the 503 placeholder exactly when there is none. -/
def judgeServers (eps : List Ep) (servers : List String) : List String :=
  if eps.isEmpty then
    (if servers = [nginx503Server] then [] else
      if servers.isEmpty then ["empty_no_503"] else ["empty_wrong_servers"])
  else
    (if sameSet (eps.map serverAddress) servers then [] else ["servers_differ"]) ++
    (if nodupB servers then [] else ["servers_duplicated"])

/-- Stream (TLS passthrough) upstreams: no endpoints ⇒ no upstream / no servers at all. -/
def judgeStreamServers (eps : List Ep) (servers : List String) : List String :=
  if eps.isEmpty then (if servers.isEmpty then [] else ["stream_stale_servers"])
  else
    (if sameSet (eps.map serverAddress) servers then [] else ["stream_servers_differ"]) ++
    (if nodupB servers then [] else ["servers_duplicated"])

end NGF.Resolver
