/-
Regular expressions for the validator regexes of nginx-gateway-fabric (C04, C03).

`Regex` is the surface AST emitted by the translator from Go's `regexp/syntax` parse tree
(character classes as inclusive code-point ranges, concatenation, alternation, star/plus/opt,
bounded repetition). `Re` is the core AST; `Regex.toRe` expands `plus`, `opt` and `rep`.

* `Re.Matches`  — denotational semantics (whole-string membership), an inductive predicate;
* `Re.dmatch`   — executable Brzozowski-derivative matcher (what the driver runs);
* `Re.dmatch_iff` — the two agree for every regex and every string.

Go's `(*Regexp).MatchString` is a *search*; `GoRegex` records whether the source is anchored by
`^` / `$` (no multi-line flag: begin/end of text) and `GoRegex.test` adds `.*` on unanchored sides.
Core Lean only.
-/
namespace NGF.Rx

abbrev Ranges := List (Nat × Nat)

def inRanges (rs : Ranges) (n : Nat) : Bool := rs.any (fun r => r.1 ≤ n && n ≤ r.2)

inductive Re
  | empty
  | eps
  | cls (rs : Ranges)
  | seq (a b : Re)
  | alt (a b : Re)
  | star (a : Re)
  deriving Repr, DecidableEq

inductive Re.Matches : Re → List Char → Prop
  | eps : Matches .eps []
  | cls {rs : Ranges} {c : Char} : inRanges rs c.toNat = true → Matches (.cls rs) [c]
  | seq {a b : Re} {s t : List Char} : Matches a s → Matches b t → Matches (.seq a b) (s ++ t)
  | altL {a b : Re} {s : List Char} : Matches a s → Matches (.alt a b) s
  | altR {a b : Re} {s : List Char} : Matches b s → Matches (.alt a b) s
  | starNil {a : Re} : Matches (.star a) []
  | starCons {a : Re} {s t : List Char} : Matches a s → Matches (.star a) t → Matches (.star a) (s ++ t)

namespace Re

def nullable : Re → Bool
  | empty => false
  | eps => true
  | cls _ => false
  | seq a b => nullable a && nullable b
  | alt a b => nullable a || nullable b
  | star _ => true

def mkSeq (a b : Re) : Re :=
  match a, b with
  | .empty, _ => .empty
  | _, .empty => .empty
  | .eps, b => b
  | a, .eps => a
  | a, b => .seq a b

def mkAlt (a b : Re) : Re :=
  match a, b with
  | .empty, b => b
  | a, .empty => a
  | a, b => if a = b then a else .alt a b

def deriv (c : Char) : Re → Re
  | empty => empty
  | eps => empty
  | cls rs => if inRanges rs c.toNat then eps else empty
  | seq a b => if nullable a then mkAlt (mkSeq (deriv c a) b) (deriv c b) else mkSeq (deriv c a) b
  | alt a b => mkAlt (deriv c a) (deriv c b)
  | star a => mkSeq (deriv c a) (star a)

def dmatch (r : Re) : List Char → Bool
  | [] => nullable r
  | c :: cs => dmatch (deriv c r) cs

/-- union of all classes occurring in the regex: every character of a matched string is in it -/
def alphabet : Re → Ranges
  | empty => []
  | eps => []
  | cls rs => rs
  | seq a b => alphabet a ++ alphabet b
  | alt a b => alphabet a ++ alphabet b
  | star a => alphabet a

/-- classes a non-empty match can start with -/
def firstRanges : Re → Ranges
  | empty => []
  | eps => []
  | cls rs => rs
  | seq a b => if nullable a then firstRanges a ++ firstRanges b else firstRanges a
  | alt a b => firstRanges a ++ firstRanges b
  | star a => firstRanges a

end Re

/-- surface AST, as emitted by the translator -/
inductive Regex
  | empty
  | eps
  | cls (rs : Ranges)
  | seq (a b : Regex)
  | alt (a b : Regex)
  | star (a : Regex)
  | plus (a : Regex)
  | opt (a : Regex)
  | rep (a : Regex) (lo hi : Nat)
  deriving Repr, DecidableEq

def Re.pow (a : Re) : Nat → Re
  | 0 => .eps
  | n + 1 => .seq a (pow a n)

def Re.optChain (a : Re) : Nat → Re
  | 0 => .eps
  | n + 1 => .alt .eps (.seq a (optChain a n))

namespace Regex

def toRe : Regex → Re
  | empty => .empty
  | eps => .eps
  | cls rs => .cls rs
  | seq a b => .seq a.toRe b.toRe
  | alt a b => .alt a.toRe b.toRe
  | star a => .star a.toRe
  | plus a => .seq a.toRe (.star a.toRe)
  | opt a => .alt .eps a.toRe
  | rep a lo hi => .seq (Re.pow a.toRe lo) (Re.optChain a.toRe (hi - lo))

def Matches (r : Regex) (s : List Char) : Prop := r.toRe.Matches s

def test (r : Regex) (s : List Char) : Bool := r.toRe.dmatch s

/-- union of all classes, computed without expanding repetitions -/
def alphabet : Regex → Ranges
  | empty => []
  | eps => []
  | cls rs => rs
  | seq a b => alphabet a ++ alphabet b
  | alt a b => alphabet a ++ alphabet b
  | star a => alphabet a
  | plus a => alphabet a
  | opt a => alphabet a
  | rep a _ _ => alphabet a

end Regex

/-- every code point -/
def anyChar : Ranges := [(0, 0x10FFFF)]

/-- A Go regular expression as used with `MatchString` (search semantics). -/
structure GoRegex where
  src : String
  re : Regex
  anchoredStart : Bool
  anchoredEnd : Bool
  deriving Repr

namespace GoRegex

/-- the regex whose whole-string language is the set of strings in which `g` finds a match -/
def full (g : GoRegex) : Regex :=
  let r := if g.anchoredStart then g.re else .seq (.star (.cls anyChar)) g.re
  if g.anchoredEnd then r else .seq r (.star (.cls anyChar))

/-- `regexp.MustCompile(src).MatchString(s)` -/
def test (g : GoRegex) (s : List Char) : Bool := g.full.test s

def Matches (g : GoRegex) (s : List Char) : Prop := g.full.Matches s

end GoRegex

end NGF.Rx
