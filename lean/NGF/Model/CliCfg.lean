/-
C20 — the `Cfg` of the CLI model instantiated with the constants the translator read from the
current sources (`NGF.Generated.Cli`).  The driver runs the model with this configuration and the
theorems of `NGF.Props.C20` are stated about it.
-/
import NGF.Model.Cli
import NGF.Generated.CliFacts

namespace NGF.Cli
open NGF.Generated.Cli in
def genCfg : Cfg :=
  { epBits := epBits, epLo := epLo, epHi := epHi,
    optBits := optBits, optLo := optLo, optHi := optHi,
    intBits := intBits, portLo := portLo, portHi := portHi,
    domain := domain.toList }
end NGF.Cli
