import NGF.Model.Ownership
/-
C17 — the property evaluated on outputs of the REAL pipeline (harness/c17).

The judge does not run the graph model: it classifies the objects of the observed cluster state with the
specification predicates `foreignClass/foreignGw/foreignRoute/foreignPolicy/foreignBtp` (route services taken
from the route SPEC) and checks, on what the real code produced,
  * no UpdateRequest is addressed to a foreign object (and none at all under a foreign-controlled
    configured-name class),
  * the generated files are byte-identical (hash-identical) with and without the foreign set,
  * the resulting statuses of all other objects are identical with and without it,
  * status entries written by other controllers come out of the real setters unchanged (content, order),
    and an object whose setter reports "no change" is untouched,
  * (`lead` lines) through the real LeaderAwareGroupUpdater: no write before `Enable`, and no request at or
    after it for an object that is foreign in the cluster as of the last batch processed.
SnippetsFilters are NGF's own CRD (always written); one that only foreign Routes reference may be added to the
foreign set: it must not change the files nor the status of anything else.
Core Lean only.
-/
namespace NGF.Ownership

/-- key of an object in the vocabulary shared with the harness -/
def kindName : RKind → String
  | .http => "HTTPRoute" | .grpc => "GRPCRoute" | .tls => "TLSRoute"

def NN.str (n : NN) : String := n.ns ++ "/" ++ n.name

def Target.key : Target → String
  | .cls n => "cls/" ++ n
  | .gw n => "gw/" ++ n.str
  | .route k n => kindName k ++ "/" ++ n.str
  | .policy g n => "pol:" ++ g ++ "/" ++ n.str
  | .btp n => "btp/" ++ n.str
  | .snippet n => "snip/" ++ n.str

/-- configured-name class present and naming another controller (specification side) -/
def disabledSpec (cfg : Cfg) (s : State) : Bool :=
  s.classes.any (fun c => decide (c.name = cfg.gcName) && decide (c.ctlr ≠ cfg.ctlr))

/-- keys of the objects that are foreign in `s` -/
def foreignKeys (cfg : Cfg) (s : State) : List String :=
  ((s.classes.filter (foreignClass cfg)).map (fun c => (Target.cls c.name).key)) ++
  ((s.gws.filter (foreignGw cfg)).map (fun g => (Target.gw g.nn).key)) ++
  ((s.routes.filter (foreignRoute cfg s)).map (fun r => (Target.route r.kind r.nn).key)) ++
  ((s.policies.filter (foreignPolicy cfg s)).map (fun p => (Target.policy p.gvk p.nn).key)) ++
  ((s.btps.filter (foreignBtp cfg s)).map (fun b => (Target.btp b.nn).key))

/-- a Route that is not foreign names the SnippetsFilter (its own namespace) in an ExtensionRef filter -/
def snippetReferencedByOurs (cfg : Cfg) (s : State) (sf : NN) : Bool :=
  s.routes.any (fun r => !foreignRoute cfg s r && decide (r.kind ≠ .tls) && decide (r.nn.ns = sf.ns) &&
    r.sfRefs.contains sf.name)

/-- keys of the objects that may be removed without any effect on the configuration and on the statuses of all
OTHER objects (`noninterference_foreign`, `unreferenced_snippets_removable`): the foreign objects, and the
SnippetsFilters that no Route of ours references (they keep getting their own status: NGF's CRD) -/
def droppableKeys (cfg : Cfg) (s : State) : List String :=
  ((s.classes.filter (fun c => foreignClass cfg c && decide (c.name ≠ cfg.gcName))).map
    (fun c => (Target.cls c.name).key)) ++
  ((s.gws.filter (foreignGw cfg)).map (fun g => (Target.gw g.nn).key)) ++
  ((s.routes.filter (foreignRoute cfg s)).map (fun r => (Target.route r.kind r.nn).key)) ++
  ((s.policies.filter (foreignPolicy cfg s)).map (fun p => (Target.policy p.gvk p.nn).key)) ++
  ((s.btps.filter (foreignBtp cfg s)).map (fun b => (Target.btp b.nn).key)) ++
  ((s.snippets.filter (fun sf => !snippetReferencedByOurs cfg s sf)).map (fun n => (Target.snippet n).key))

/-- what happened to one object that a real status setter was run on -/
structure Kept where
  obj : String
  before : List String     -- entries of other controllers, in order, before the setter
  after : List String
  wrote : Bool
  hb : String              -- hash of the whole status before / after
  ha : String

structure JIn where
  kind : String            -- base | meta | disabled | hist | histp
  cfg : Cfg
  st : State               -- route `svcs` = Services named by the route spec
  x : List String
  targets : List String
  filesA : List String     -- per-file hashes, first reference run (for `disabled`: the default configuration)
  filesB : List String     -- per-file hashes, run under test
  /- The generator's output is not a function of its input (Go map order reaches the text in a few places),
     so when the first runs differ the harness repeats them; one hash per run: -/
  runsA : List String      -- all files, reference runs (state without the foreign set)
  runsB : List String      -- all files, runs under test (first = the one whose requests are judged)
  runsF : List String      -- hist: fresh controllers on the full current state
  srunsA : List String     -- resulting statuses, same runs
  srunsB : List String
  srunsF : List String
  kept : List Kept
  nochange : Bool
  panic : String
  /- `lead` lines (ownership-changing history through the REAL LeaderAwareGroupUpdater): `st` is the cluster as
     of the last batch processed before the operation -/
  phase : String := ""          -- "pre" (not leader yet) | "enable" | "post"
  reqs : List String := []      -- objects the real Updater was asked to write during the operation (client Get)
  writes : List String := []    -- objects whose status was written during the operation (client Status().Update)

inductive Verdict
  | ok
  | skip (why : String)
  | fail (clause : String) (detail : String)
  deriving Repr, DecidableEq

def firstIn (l : List String) (m : List String) : Option String := l.find? (fun k => m.contains k)

def overlap (a b : List String) : Bool := a.any (fun x => b.contains x)

/-- outcome of comparing the long-lived controller's output `b` with fresh runs without (`as`) and with
(`fs`) the foreign set: 0 = same as without, 1 = not even what a fresh start on the same state gives
(convergence, C01), 2 = cannot be attributed (reference itself varies), 3 = differs because of the foreign set -/
def histCompare (b : String) (as fs : List String) : Nat :=
  if as.contains b then 0 else if !fs.contains b then 1 else if overlap as fs then 2 else 3

/-- keys the generator declares without a counterpart in the model state (Secrets, ConfigMaps, Services of the
foreign set): accepted on trust, they never are request targets -/
def isAuxKey (k : String) : Bool := k.startsWith "aux:"

def isSnippetKey (k : String) : Bool := k.startsWith "snip/"

/-- **Leadership clause**: nothing is written while the replica is not the leader; every request the Updater
receives at or after `Enable` addresses an object that is not foreign in the cluster as of the last batch
processed before it (and none at all under a foreign-controlled configured-name class). -/
def judgeLead (j : JIn) : Verdict :=
  if j.panic != "" then .skip ("panic " ++ j.panic)
  else
  let touched := j.reqs ++ j.writes
  if j.phase == "pre" then
    (match touched.head? with
     | some k => .fail "no_write_before_enable" k
     | none => .ok)
  else if disabledSpec j.cfg j.st && !touched.isEmpty then
    .fail "foreign_class_disables_all" ("leader write for " ++ touched.headD "")
  else match firstIn touched (foreignKeys j.cfg j.st) with
  | some k => .fail "no_foreign_write_across_leadership" k
  | none => .ok

def judge (j : JIn) : Verdict :=
  if j.kind == "lead" then judgeLead j else
  let isHist := j.kind == "hist" || j.kind == "histp"
  if j.panic != "" then
    (if j.kind == "meta" && !j.filesA.isEmpty then .fail "panic_with_foreign" j.panic else .skip ("panic " ++ j.panic))
  else
  let dis := disabledSpec j.cfg j.st
  let drop := droppableKeys j.cfg j.st
  match j.x.find? (fun k => !drop.contains k && !isAuxKey k) with
  | some k => .skip ("x-not-foreign " ++ k)
  | none =>
  -- no status output for foreign objects
  if dis && !j.targets.isEmpty then .fail "foreign_class_disables_all" ("request for " ++ j.targets.headD "")
  else match firstIn j.targets (foreignKeys j.cfg j.st ++ j.x.filter (fun k => !isSnippetKey k)) with
  | some k => .fail "no_request_for_foreign" k
  | none =>
  -- entries of other controllers survive the real setters
  match j.kept.find? (fun k => k.before != k.after) with
  | some k => .fail "foreign_entries_kept" k.obj
  | none =>
  match j.kept.find? (fun k => !k.wrote && k.hb != k.ha) with
  | some k => .fail "unwritten_object_untouched" k.obj
  | none =>
  -- configuration and the statuses of everything else
  if j.kind == "disabled" then
    (if !dis then .skip "not-disabled"
     else if j.filesB != j.filesA then .fail "foreign_class_disables_all" "files differ from the default configuration"
     else .ok)
  else if isHist then
    (if dis && j.filesB != j.filesA then
       .fail "foreign_class_disables_all" "long-lived controller still serves a non-default configuration"
     else
       let f := histCompare (j.runsB.headD "") j.runsA j.runsF
       let s := if j.nochange then 0 else histCompare (j.srunsB.headD "") j.srunsA j.srunsF
       if f == 1 || s == 1 then .skip "c01-divergence"
       else if f == 3 then .fail "files_unchanged" "long-lived controller: files differ from those of the state without the foreign set"
       else if s == 3 then .fail "status_unchanged" "long-lived controller: statuses differ from those of the state without the foreign set"
       else if f == 2 || s == 2 then .skip "nondeterministic-reference"
       else .ok)
  else if !overlap j.runsA j.runsB then .fail "files_unchanged" "files differ with the foreign set present"
  else if !overlap j.srunsA j.srunsB then .fail "status_unchanged" "statuses differ with the foreign set present"
  else .ok

end NGF.Ownership
