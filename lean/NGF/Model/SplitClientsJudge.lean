/-
The C15 judge: the PROPERTY evaluated on the text the real generator printed (a `split_clients`
block of http.conf, the `proxy_pass` argument of the rule's location, the presence of the 500 upstream).
It does not use the model of the algorithm (`NGF.SplitClients`), only NGINX's reading of the block:
`ngx_atofp(…, 2)` for the percentage, `#` starts a comment, a percentage of 0 is rejected.
Core Lean only.
-/
namespace NGF.SplitClientsJudge

/-- `ngx_atofp(line, n, 2)`: fixed-point parse with at most two fractional digits, in hundredths. -/
def atofpAux : List Char → (value : Nat) → (dot : Bool) → (point : Nat) → Option Nat
  | [], v, _, p => some (v * 10 ^ p)
  | c :: cs, v, dot, p =>
    if p = 0 then none
    else if c = '.' then (if dot then none else atofpAux cs v true p)
    else if c.isDigit then atofpAux cs (v * 10 + (c.toNat - 48)) dot (if dot then p - 1 else p)
    else none

def atofp2 (s : List Char) : Option Nat :=
  if s.isEmpty then none else atofpAux s 0 false 2

/-- one entry of a split_clients block as NGINX reads it -/
structure Entry where
  commented : Bool
  pct : String
  value : String
  deriving Repr

structure Block where
  var : String
  entries : List Entry
  deriving Repr

/-- `    33.33% up;` / `    # 0.00% up;` -/
def parseEntry (line : String) : Option Entry :=
  let t := line.trimAscii.toString
  let (commented, t) := if t.startsWith "# " then (true, (t.drop 2).toString) else (false, t)
  if t.startsWith "#" then none
  else if !t.endsWith ";" then none
  else
    match (t.dropEnd 1).toString.splitOn "% " with
    | [p, v] => if v.isEmpty || v.contains ' ' || p.contains ' ' then none else some ⟨commented, p, v⟩
    | _ => none

/-- block text with "\n" written as "|" -/
def parseBlock (s : String) : Option Block :=
  match s.splitOn "|" with
  | "" :: hdr :: rest =>
    let pre := "split_clients $request_id $"
    if !(hdr.startsWith pre && hdr.endsWith " {") then none
    else
      let var := ((hdr.drop pre.length).toString.dropEnd 2).toString
      match rest.reverse with
      | "" :: "}" :: revEntries =>
        (revEntries.reverse.mapM parseEntry).map fun es => ⟨var, es⟩
      | _ => none
  | _ => none

def invalidBackendRef : String := "invalid-backend-ref"

/-- share in hundredths of a percent that NGINX gives to an entry; `none` = NGINX rejects the entry -/
def Entry.cents (e : Entry) : Option Nat :=
  if e.commented then some 0
  else match atofp2 e.pct.toList with
    | some 0 => none
    | r => r

/-- clauses for one backend at position `i` of `n` (entries are positional) -/
def judgeBackend (T n i w : Nat) (valid : Bool) (up : String) (e : Entry) : List String :=
  let pos := if i + 1 = n then "last" else "nonlast"
  let target := if valid then up else invalidBackendRef
  (if e.value != target then [if valid then "valid_backend_target:" ++ pos else "invalid_backend_not_500:" ++ pos] else []) ++
  match e.cents with
  | none => ["share_syntax:" ++ pos ++ ":" ++ e.pct]
  | some c =>
    (if w = 0 && c != 0 then
      ["zero_weight_gets_traffic:" ++ pos ++ (if c < n then ":remainder" else ":large")] else []) ++
    -- per-backend budget (DESIGN.md §8): at most 0.01 below, at most 0.01·(n−1) above 100·w/T
    (if 10000 * w ≤ (c + 1) * T && c * T ≤ 10000 * w + (n - 1) * T then [] else ["tolerance:" ++ pos])

def judgeBackends (T n : Nat) : Nat → List Nat → List Bool → List String → List Entry → List String
  | i, w :: ws, v :: vs, u :: us, e :: es =>
    judgeBackend T n i w v u e ++ judgeBackends T n (i + 1) ws vs us es
  | _, _, _, _, _ => []

def sumCents (es : List Entry) : Nat := (es.map fun e => e.cents.getD 0).sum

/-- The property on one rule with `n ≥ 2` backends. Returns the list of violated clauses. -/
def judgeG (grpc : Bool) (ws : List Nat) (vs : List Bool) (ups : List String) (block : String) (pp : String)
    (inv500 : Bool) : List String :=
  let n := ws.length
  let T := ws.sum
  match parseBlock block with
  | none => ["block_syntax"]
  | some b =>
    (if pp != (if grpc then "grpc://$" ++ b.var else "http://$" ++ b.var ++ "$request_uri")
      then ["proxy_pass_variable"] else []) ++
    (if !inv500 then ["invalid_upstream_500"] else []) ++
    (if T = 0 then
      let active := b.entries.filter (!·.commented)
      (if active.all (fun e => e.value == invalidBackendRef && e.cents.isSome) && sumCents active = 10000
        then [] else ["all_zero_not_500"])
    else if b.entries.length != n then ["entry_count"]
    else
      judgeBackends T n 0 ws vs ups b.entries ++
      (if sumCents b.entries = 10000 then [] else ["sum_not_100"]))

/-- the judge for an HTTP rule (`proxy_pass http://$var$request_uri`) -/
def judge (ws : List Nat) (vs : List Bool) (ups : List String) (block : String) (pp : String)
    (inv500 : Bool) : List String := judgeG false ws vs ups block pp inv500

/-- statistic: the positional reading (non-last backends are floors, the last one absorbs the remainder) -/
def positional (ws : List Nat) (block : String) : Bool :=
  let T := ws.sum
  let n := ws.length
  match parseBlock block with
  | none => false
  | some b =>
    ((ws.zip b.entries).dropLast.all fun (w, e) =>
      let c := e.cents.getD 0
      decide (c * T ≤ 10000 * w) && decide (10000 * w ≤ (c + 1) * T)) &&
    ((ws.zip b.entries).getLast?.all fun (w, e) =>
      let c := e.cents.getD 0
      decide (10000 * w ≤ c * T) && decide (c * T ≤ 10000 * w + (n - 1) * T))

/-- statistic: the stricter reading (every backend within 0.01 of its exact share) -/
def strictWithin (ws : List Nat) (block : String) : Bool :=
  let T := ws.sum
  match parseBlock block with
  | none => false
  | some b =>
    (ws.zip b.entries).all fun (w, e) =>
      let c := e.cents.getD 0
      decide (c * T ≤ 10000 * w + T) && decide (10000 * w ≤ (c + 1) * T)

/-- statistic: a non-last share that is one hundredth below the exact two-decimal value
(float rounding of an exactly representable share, e.g. percentOf(23,125) = 18.39) -/
def floatDeficit (ws : List Nat) (block : String) : Nat :=
  let T := ws.sum
  match parseBlock block with
  | none => 0
  | some b =>
    ((ws.zip b.entries).dropLast.filter fun (w, e) =>
      T != 0 && (10000 * w) % T == 0 && e.cents.getD 0 + 1 == 10000 * w / T).length

end NGF.SplitClientsJudge
