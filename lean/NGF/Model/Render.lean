/-
C03, stage 2: template rendering of the pipeline fragment.

`Pipeline.gen : Scenario → Conf` (C02, stage 2) stops at an ABSTRACT configuration. This file goes the rest of the way,
for the same fragment: an enriched configuration `ConfR` (what `dataplane.Configuration` holds for the fragment: servers
with their position in `conf.HTTPServers`, path rules with their index in `server.PathRules`, match rules with the
BackendGroup source (route namespace/name, rule index), the deduplicated BackendGroups), produced by `genR`, and

    render  : ConfR → List Dir                  what servers_template.go + split_clients_template.go print into http.conf
    matchesOf : ConfR → List (key × matches)    what executeServers marshals into matches.json

over the directive AST of Model/NginxParse (`NGF.Nginx.Dir`). `forget (genR s order) = Pipeline.gen s` is proved in
Proofs/RenderForget.lean, so everything C02 ties/proves about `gen` speaks about the configuration rendered here.

Go functions / templates mirrored (file: function → here):
  dataplane/configuration.go: upsertRoute (BackendGroup source = route NsName + rule index) → `routeEntriesR`, `entriesR`;
      hostPathRules.buildServers (sort.Slice of PathRules by Path, PathType; of servers by Hostname; default server "")
      → `ruleLt`/`rank`, `nameRank`; portPathRules.buildServers (map iteration over ports: the order is NOT determined by
      the input, it is the parameter `order`) → `base`/`portOrder`; buildBackendGroups → `groupsOf`
  nginx/config/servers.go: createServers (serverID = index in conf.HTTPServers) → `RServer.sid`; createServer;
      createLocations (httpMatchKey = serverID_pathRuleIdx, ext locations, then internal locations, default root)
      → `renderRule`, `matchKey`, `renderServer`; initializeInternalLocation/createMatchLocation → `internalLoc`;
      updateLocation (RequestRedirect → return; else proxy_set_header list + proxy_pass) → `actDirs`;
      createReturnAndRewriteConfigForRedirectFilter (body) → `redirectBody`; createProxyPass/backendGroupName/
      backendGroupNeedsSplit → `passTarget`; createBaseProxySetHeaders + httpUpgradeHeader/httpConnectionHeader → `baseHeaders`;
      createDefaultRootLocation → `rootLoc`; createRouteMatch → `Pipeline.njsMatchOf` + redirectPath
  nginx/config/servers_template.go: serversTemplateText (IsDefaultHTTP branch, plain server branch with IPv4+IPv6
      listens, location body order: internal, return, set $match_key + js_content, proxy_http_version, proxy_set_header*,
      proxy_pass; the two unix-socket servers at the end) → `renderDefault`, `renderServer`, `tailServers`
  nginx/config/split_clients.go: createSplitClients/createSplitClientDistributions (+ split_clients_template.go: a
      `0.00` share is commented out) → `splitBlock`, `splitEntries`
  dataplane/types.go BackendGroup.Name + variable_names.go convertStringToSafeVariableName → `Mangle.groupVar`

Also here: the small structural well-formedness judge `wfDirs` (the clauses of Spec/WellFormedConf that concern the
rendered part: (listen, server_name) pairs, default_server per address, duplicate locations, `$match_key` keys and
internal redirect targets, split_clients variable names / percentages, variables of `proxy_pass`, arguments of
`listen`). It is run by the
driver on the REAL http.conf next to the big judge (agreement is reported in the evidence) and is the subject of
`render_wellformed_fragment` (Props/C03Render.lean).
Core-only.
-/
import NGF.Model.Pipeline
import NGF.Model.NginxParse
import NGF.Model.Mangle
import NGF.Model.SplitClientsJudge
import NGF.Spec.WellFormedConf

namespace NGF.Render
open NGF.Pipeline NGF.Nginx NGF.Mangle

/-! ### enriched entries: a match rule with the source of its BackendGroup -/

/-- `BackendGroup.Source` + `BackendGroup.RuleIdx` -/
structure Src where
  ns : Str
  name : Str
  rule : Nat
  deriving DecidableEq, Repr

structure REntry where
  e : Entry
  src : Src
  deriving Repr

/-- upsertRoute: `for i, rule := range route.Spec.Rules` … `newBackendGroup(rule.BackendRefs, routeNsName, i)` -/
def routeEntriesR (port : Nat) (hosts : List Str) (r : Route) : List REntry :=
  (enumFrom 0 r.rules).flatMap fun ir => hosts.flatMap fun h => ir.2.ms.map fun m =>
    { e := { port := port, host := h, m := m, key := keyOf r m, action := ir.2.action },
      src := ⟨r.ns, r.name, ir.1⟩ }

def entriesR (g : Gateway) (routes : List Route) : List REntry :=
  g.listeners.flatMap fun l => routes.flatMap fun r =>
    if r.valid then routeEntriesR l.port (acceptedAt g l r) r else []

/-- sortMatchRules on the enriched entries (the same relation on the same key) -/
def sortR (es : List REntry) : List REntry := es.mergeSort fun a b => Precedence.le a.e.key b.e.key

/-! ### enriched configuration -/

inductive RAct
  /-- proxy_pass of a match rule: BackendGroup source and backends -/
  | proxy (src : Src) (bs : List Backend)
  | redirect (code : Nat) (scheme : Option Str) (host : Option Str) (port : Option Nat)
  | status (code : Nat)
  deriving Repr

def RAct.forget : RAct → Act
  | .proxy _ bs => .proxy (distOf bs)
  | .redirect c s h p => .redirect c s h p
  | .status c => .status c

def actOfR (listenerPort : Nat) (src : Src) : Action → RAct
  | .redirect code scheme host port => .redirect code scheme host (shownPort listenerPort scheme port)
  | .forward bs => .proxy src bs

structure RMatch where
  njs : NjsMatch
  act : RAct

inductive RLocAct
  | direct (a : RAct)
  | njs (ms : List RMatch)

def RLocAct.forget : RLocAct → LocAct
  | .direct a => .direct a.forget
  | .njs ms => .njs (ms.map fun m => (m.njs, m.act.forget))

def rmatchOf (port : Nat) (x : REntry) : RMatch := ⟨njsMatchOf x.e.m, actOfR port x.src x.e.action⟩

/-- createLocations for one path rule (needsInternalLocations / isPathOnlyMatch), as `Pipeline.ruleAct` -/
def ruleActR (port : Nat) (mrs : List REntry) : RLocAct :=
  match mrs with
  | [x] => if isPathOnly x.e.m then .direct (actOfR port x.src x.e.action) else .njs [rmatchOf port x]
  | _ => .njs (mrs.map (rmatchOf port))

/-- one `dataplane.PathRule` of a server -/
structure RRule where
  /-- pathRuleIdx: position in the sorted `server.PathRules` -/
  idx : Nat
  exact : Bool
  path : Str
  /-- initializeExternalLocations: (`=` modifier?, path) -/
  ext : List (Bool × Str)
  act : RLocAct

structure RServer where
  /-- serverID: position in `conf.HTTPServers` -/
  sid : Nat
  port : Nat
  name : Str
  rules : List RRule
  /-- createDefaultRootLocation: no path rule has path "/" -/
  root404 : Bool

structure ConfR where
  /-- default servers: (port, serverID) -/
  dports : List (Nat × Nat)
  servers : List RServer
  /-- buildBackendGroups: one entry per (route, rule index) that occurs in a match rule -/
  groups : List (Src × List Backend)

def RServer.forget (sv : RServer) : CServer :=
  { port := sv.port, name := sv.name,
    locs := (sv.rules.flatMap fun r => r.ext.map fun k => ({ exact := k.1, path := k.2, act := r.act.forget } : CLoc)) ++
            (if sv.root404 then [({ exact := false, path := ['/'], act := .direct (.status 404) } : CLoc)] else []) }

def ConfR.forget (c : ConfR) : Conf :=
  { ports := c.dports.map (·.1), servers := c.servers.map RServer.forget }

/-! ### positions: the order of path rules, servers and ports -/

/-- the `less` of `sort.Slice(s.PathRules, …)`: Path, then PathType ("exact" < "prefix") -/
def ruleLt (a b : Bool × Str) : Bool :=
  if a.2 == b.2 then a.1 && !b.1 else Precedence.lexLt (bytes a.2) (bytes b.2)

/-- position of `k` after sorting distinct keys by `lt`: the number of smaller keys -/
def rank {α} (lt : α → α → Bool) (keys : List α) (k : α) : Nat := (keys.filter fun x => lt x k).length

/-- the `less` of `sort.Slice(servers, …)`: Hostname (the default server has hostname "") -/
def nameLt (a b : Str) : Bool := Precedence.lexLt (bytes a) (bytes b)

def namesOn (hosts : List (Nat × Str)) (p : Nat) : List Str := (hosts.filter fun ph => ph.1 == p).map (·.2)

/-- index of the first server of port `q` when the ports are emitted in the order `ord`
(every port contributes its default server and its named servers) -/
def base (hosts : List (Nat × Str)) : List Nat → Nat → Nat
  | [], _ => 0
  | p :: ps, q => if p == q then 0 else 1 + (namesOn hosts p).length + base hosts ps q

/-- the iteration order of `portPathRules`: the given order restricted to the Gateway's ports, then the remaining ports -/
def portOrder (order ports : List Nat) : List Nat := ((order.filter ports.contains) ++ ports).eraseDups

/-- serverID of the named server (port, name): default server of the port first, then by hostname -/
def sidOf (hosts : List (Nat × Str)) (ord : List Nat) (ph : Nat × Str) : Nat :=
  base hosts ord ph.1 + 1 + rank nameLt (namesOn hosts ph.1) ph.2

/-! ### genR -/

def pathKeyR (x : REntry) : Bool × Str := pathKey x.e

def serverOfR (es : List REntry) (sid port : Nat) (h : Str) : RServer :=
  let mine := es.filter fun x => x.e.port == port && x.e.host == h
  let keys := (mine.map pathKeyR).eraseDups
  let rules : List Precedence.PathRule := keys.map fun k => ⟨k.2, !k.1⟩
  { sid := sid, port := port, name := h,
    rules := (enumFrom 0 keys).map fun ik =>
      { idx := rank ruleLt keys ik.2, exact := ik.2.1, path := ik.2.2,
        ext := (Precedence.extLocs rules ik.1 ⟨ik.2.2, !ik.2.1⟩).map fun gl => (gl.exact, gl.path),
        act := ruleActR port (sortR (mine.filter fun x => pathKeyR x == ik.2)) },
    root404 := !(rules.any fun r => r.path == ['/']) }

/-- keep the first entry of every key -/
def dedupKey {β} : List (Src × β) → List Src → List (Src × β)
  | [], _ => []
  | x :: xs, seen => if seen.contains x.1 then dedupKey xs seen else x :: dedupKey xs (x.1 :: seen)

def backendsOf : Action → List Backend
  | .forward bs => bs
  | .redirect .. => []

/-- buildBackendGroups: the BackendGroups of all match rules of all servers, one per (source, rule index) -/
def groupsOf (es : List REntry) : List (Src × List Backend) :=
  dedupKey (es.map fun x => (x.src, backendsOf x.e.action)) []

def genR (s : Scenario) (order : List Nat) : ConfR :=
  match winner s with
  | none => { dports := [], servers := [], groups := [] }
  | some g =>
    let es := entriesR g s.routes
    let hosts := hostsOf g s.routes
    let ports := (g.listeners.map (·.port)).eraseDups
    let ord := portOrder order ports
    { dports := ports.map fun p => (p, base hosts ord p),
      servers := hosts.map fun ph => serverOfR es (sidOf hosts ord ph) ph.1 ph.2,
      groups := groupsOf es }

/-! ### rendering -/

abbrev Arg := List Char × Bool

def w (s : String) : Arg := (s.toList, false)
def wl (s : List Char) : Arg := (s, false)
def q (s : List Char) : Arg := (s, true)
def dir (name : String) (args : List Arg) : Dir := .mk name.toList args none
def blk (name : String) (args : List Arg) (ch : List Dir) : Dir := .mk name.toList args (some ch)

/-- `listen {{ $s.Listen }}…;` and `listen [::]:{{ $s.Listen }}…;` (IPFamily dual = the default) -/
def listenDirs (port : Nat) (extra : List String) : List Dir :=
  [dir "listen" (wl (digits port) :: extra.map w), dir "listen" (wl ("[::]:".toList ++ digits port) :: extra.map w)]

/-- the `IsDefaultHTTP` branch of the servers template -/
def renderDefault (port : Nat) : Dir :=
  blk "server" [] (listenDirs port ["default_server"] ++ [dir "default_type" [w "text/html"], dir "return" [w "404"]])

/-- createBaseProxySetHeaders(httpUpgradeHeader, httpConnectionHeader) (no keep-alive policy in the fragment) -/
def baseHeaders : List (String × String) := [
  ("Host", "$gw_api_compliant_host"), ("X-Forwarded-For", "$proxy_add_x_forwarded_for"), ("X-Real-IP", "$remote_addr"),
  ("X-Forwarded-Proto", "$scheme"), ("X-Forwarded-Host", "$host"), ("X-Forwarded-Port", "$server_port"),
  ("Upgrade", "$http_upgrade"), ("Connection", "$connection_upgrade")]

def requestURI : List Char := "$request_uri".toList

/-- backendGroupName; a group with more than one backend is addressed through its split_clients variable -/
def passHost (src : Src) : List Backend → List Char
  | [] => invalidBackendRef
  | [b] => if b.weight == 0 || !b.valid then invalidBackendRef else b.target
  | _ => '$' :: groupVar src.ns src.name src.rule

/-- createProxyPass (protocol http, no URLRewrite): `http://<upstream|$group_var>$request_uri` -/
def passTarget (src : Src) (bs : List Backend) : List Char := "http://".toList ++ passHost src bs ++ requestURI

/-- createReturnAndRewriteConfigForRedirectFilter: `<scheme>://<host>[:<port>]$request_uri`
(`port` is already `Pipeline.shownPort`) -/
def redirectBody (scheme host : Option Str) (port : Option Nat) : List Char :=
  scheme.getD "$scheme".toList ++ "://".toList ++ host.getD "$host".toList ++
    (match port with | some p => ':' :: digits p | none => []) ++ requestURI

def httpVersion : Dir := dir "proxy_http_version" [w "1.1"]

/-- the body of a location that carries an action (template order: return, …, proxy_http_version, headers, pass) -/
def actDirs : RAct → List Dir
  | .proxy src bs =>
    httpVersion :: (baseHeaders.map fun h => dir "proxy_set_header" [w h.1, q h.2.toList]) ++
      [dir "proxy_pass" [wl (passTarget src bs)]]
  | .redirect code scheme host port => [dir "return" [wl (digits code), q (redirectBody scheme host port)], httpVersion]
  | .status code => [dir "return" [wl (digits code), q []], httpVersion]

/-- `location {{ $l.Path }}`: createPath / exactPath -/
def locArgs (k : Bool × Str) : List Arg := if k.1 then [w "=", wl k.2] else [wl k.2]

/-- httpMatchKey := serverID + "_" + strconv.Itoa(pathRuleIdx) -/
def matchKey (sid idx : Nat) : List Char := digits sid ++ '_' :: digits idx

/-- an external location of type "redirect" -/
def njsDirs (sid idx : Nat) : List Dir :=
  [dir "set" [w "$match_key", wl (matchKey sid idx)], dir "js_content" [w "httpmatches.redirect"], httpVersion]

def internalLoc (idx : Nat) (jm : Nat × RMatch) : Dir :=
  blk "location" [wl (internalLocPath idx jm.1)] (dir "internal" [] :: actDirs jm.2.act)

/-- the locations of one path rule: external ones, then (if needed) one internal location per match rule -/
def renderRule (sid : Nat) (r : RRule) : List Dir :=
  match r.act with
  | .direct a => r.ext.map fun k => blk "location" (locArgs k) (actDirs a)
  | .njs ms => (r.ext.map fun k => blk "location" (locArgs k) (njsDirs sid r.idx)) ++ (enumFrom 0 ms).map (internalLoc r.idx)

def rootLoc : Dir := blk "location" [w "/"] (actDirs (.status 404))

def sortRules (rs : List RRule) : List RRule := rs.mergeSort fun a b => a.idx ≤ b.idx

def renderServer (sv : RServer) : Dir :=
  blk "server" [] (listenDirs sv.port [] ++ [dir "server_name" [wl sv.name]] ++
    (sortRules sv.rules).flatMap (renderRule sv.sid) ++ (if sv.root404 then [rootLoc] else []))

def unixServer (sock code : String) : Dir :=
  blk "server" [] [dir "listen" [w sock], dir "access_log" [w "off"], dir "return" [w code]]

def tailServers : List Dir :=
  [unixServer "unix:/var/run/nginx/nginx-503-server.sock" "503", unixServer "unix:/var/run/nginx/nginx-500-server.sock" "500"]

/-- all `server` blocks of `conf.HTTPServers` in serverID order -/
def serverDirs (c : ConfR) : List Dir :=
  (((c.dports.map fun d => (d.2, renderDefault d.1)) ++ (c.servers.map fun sv => (sv.sid, renderServer sv))).mergeSort
    fun a b => a.1 ≤ b.1).map (·.2)

/-- `fmt.Sprintf("%d.%02d", c/100, c%100)` followed by `%` -/
def pctName (c : Nat) : List Char := (NGF.SplitClients.centsDec c).chars ++ ['%']

/-- createSplitClientDistributions + the template: entries with a `0.00` share are commented out (no directive) -/
def splitEntries (bs : List Backend) : List Dir :=
  let ws := bs.map (·.weight)
  if ws.sum == 0 then [.mk "100%".toList [wl invalidBackendRef] none]
  else (zipDist bs (NGF.SplitClients.intCents ws)).filterMap fun vc =>
    if vc.2 == 0 then none else some (.mk (pctName vc.2) [wl vc.1] none)

def splitBlock (g : Src × List Backend) : Dir :=
  blk "split_clients" [w "$request_id", wl ('$' :: groupVar g.1.ns g.1.name g.1.rule)] (splitEntries g.2)

/-- backendGroupNeedsSplit -/
def needsSplit (g : Src × List Backend) : Bool := g.2.length > 1

def splitDirs (c : ConfR) : List Dir := (c.groups.filter needsSplit).map splitBlock

def preload : Dir := dir "js_preload_object" [w "matches", w "from", w "/etc/nginx/conf.d/matches.json"]

/-- what the servers template and the split_clients template put into http.conf for the fragment -/
def render (c : ConfR) : List Dir := preload :: serverDirs c ++ tailServers ++ splitDirs c

/-! ### matches.json -/

def withPath (idx : Nat) (jm : Nat × RMatch) : NjsMatch := { jm.2.njs with redirectPath := internalLocPath idx jm.1 }

def ruleMatches (sid : Nat) (r : RRule) : List (List Char × List NjsMatch) :=
  match r.act with
  | .direct _ => []
  | .njs ms => if r.ext.isEmpty then [] else [(matchKey sid r.idx, (enumFrom 0 ms).map (withPath r.idx))]

/-- `httpMatchPairs` of all servers (a Go map: the keys are distinct, see `matchKeys_nodup`) -/
def matchesOf (c : ConfR) : List (List Char × List NjsMatch) :=
  c.servers.flatMap fun sv => sv.rules.flatMap (ruleMatches sv.sid)

/-- what the well-formedness judges read of matches.json: key → redirect paths -/
def matchKeysOf (c : ConfR) : List (List Char × List (List Char)) :=
  (matchesOf c).map fun km => (km.1, km.2.map (·.redirectPath))

/-! ### hypotheses on names (the known findings of C03 inside the fragment) -/

def nameChar (c : Char) : Bool := c.isAlphanum || c == '-'

/-- no two adjacent hyphens and no trailing hyphen (`Proofs/Mangle.GoodFor '-'`) -/
def noDoubleHyphen : List Char → Bool
  | [] => true
  | [c] => c != '-'
  | c :: d :: r => !(c == '-' && d == '-') && noDoubleHyphen (d :: r)

/-- route namespaces and names are `[A-Za-z0-9-]+` (no dot: C03:variable-name-with-dot) without `--` in the namespace
(C03:mangle-collision-double-hyphen); upstream names contain no `$` -/
def namesSafe (s : Scenario) : Bool :=
  s.routes.all fun r =>
    r.ns.all nameChar && r.name.all nameChar && noDoubleHyphen r.ns &&
    r.rules.all fun rule => (backendsOf rule.action).all fun b => !b.target.contains '$'

/-- listener ports of the served Gateway are TCP ports (the CRD admits 1..65535 only) -/
def portsOK (s : Scenario) : Bool :=
  match winner s with
  | none => true
  | some g => g.listeners.all fun l => decide (1 ≤ l.port) && decide (l.port ≤ 65535)

/-! ### the small structural judge -/

open NGF.WF (Issue str)

def named (n : String) (ds : List Dir) : List Dir := ds.filter fun d => d.name == n.toList

def blocksNamed (n : String) (ds : List Dir) : List Dir := ds.filter fun d => d.name == n.toList && d.block.isSome

def body (d : Dir) : List Dir := d.block.getD []

def arg0 (d : Dir) : List Char := (d.args.head?.map (·.1)).getD []

def argLast (d : Dir) : List Char := (d.args.getLast?.map (·.1)).getD []

/-- first element that occurs again later -/
def firstDup {α} [DecidableEq α] : List α → Option α
  | [] => none
  | x :: xs => if x ∈ xs then some x else firstDup xs

def dupIssue {α} [DecidableEq α] (clause : String) (show_ : α → String) (l : List α) : List Issue :=
  match firstDup l with
  | some k => [⟨clause, show_ k⟩]
  | none => []

def showPair (p : List Char × List Char) : String := str p.1 ++ " " ++ str p.2

/-- (listen address, server_name) pairs of a server block; a server without server_name has the name "" -/
def srvPairs (s : Dir) : List (List Char × List Char) :=
  let listens := (named "listen" (body s)).map arg0
  let names := (named "server_name" (body s)).flatMap fun c => c.args.map (·.1)
  let names := if names.isEmpty then [[]] else names
  listens.flatMap fun l => names.map fun n => (l, n)

def defaultListens (s : Dir) : List (List Char) :=
  ((named "listen" (body s)).filter fun c => (c.args.map (·.1)).contains "default_server".toList).map arg0

/-- location identity: (modifier, path); a location without modifier is "P" -/
def locKeyL (d : Dir) : List Char × List Char :=
  match d.args with
  | [(p, _)] => ("P".toList, p)
  | [(m, _), (p, _)] => (m, p)
  | _ => ("?".toList, [])

def isInternal (d : Dir) : Bool := (body d).any fun c => c.name == "internal".toList

/-- `set $match_key <k>;` -/
def keyOfDir (c : Dir) : Option (List Char) :=
  if c.name == "set".toList && arg0 c == "$match_key".toList then some (argLast c) else none

/-- keys used by `set $match_key <k>;` in the locations of a server -/
def keysUsed (locs : List Dir) : List (List Char) := locs.flatMap fun d => (body d).filterMap keyOfDir

def keyIssues (mk : List (List Char × List (List Char))) (locs : List Dir) : List Issue :=
  let internalLocs := (locs.filter isInternal).map locKeyL
  (keysUsed locs).flatMap fun k =>
    match mk.find? (·.1 == k) with
    | none => [⟨"match-key-missing", str k⟩]
    | some (_, paths) => (paths.filter fun p => !internalLocs.contains ("P".toList, p)).map fun p =>
        ⟨"redirect-target-missing", str k ++ " -> " ++ str p⟩

/-- variable defined by a split_clients block (without the `$`) -/
def splitVar (d : Dir) : List Char := (argLast d).drop 1

/-- a split_clients percentage in hundredths (`ngx_atofp(value, len-1, 2)`; 0 is rejected) -/
def pctOf (name : List Char) : Option Nat :=
  if name.getLast? == some '%' then
    match NGF.SplitClientsJudge.atofp2 name.dropLast with
    | some 0 => none
    | x => x
  else none

/-- an entry of a split_clients block: a percentage, or `*` (the rest) -/
def pctEntry (name : List Char) : Option Nat := if name == ['*'] then some 0 else pctOf name

def showDir (d : Dir) : String := " ".intercalate (str d.name :: d.argStrings)

def splitIssues (sc : Dir) : List Issue :=
  let es := body sc
  (es.flatMap fun e => if e.args.length != 1 || e.block.isSome then [⟨"bad-split-entry", showDir e⟩] else []) ++
  (es.flatMap fun e => if (pctEntry e.name).isNone then [⟨"bad-percent", showDir e⟩] else []) ++
  (let total := (es.map fun e => (pctEntry e.name).getD 0).sum
   if total > 10000 then [⟨"percent-total", toString total⟩] else [])

def builtinL : List (List Char) := NGF.WF.builtinHttp.map String.toList

/-- one variable reference of a `proxy_pass` argument: defined by a split_clients block or built in -/
def refIssue (splitVars : List (List Char)) (arg : List Char) : NGF.WF.VarRef → List Issue
  | .err why => [⟨"bad-variable-syntax", "proxy_pass " ++ str arg ++ ": " ++ why⟩]
  | .name n =>
    if splitVars.contains n.toList || builtinL.contains n.toList then []
    else [⟨"unknown-variable", "proxy_pass " ++ str arg ++ ": unknown \"" ++ n ++ "\" variable"⟩]

/-- the variables of a `proxy_pass` argument as `ngx_http_script_compile` scans them -/
def passIssues (splitVars : List (List Char)) (d : Dir) : List Issue :=
  (NGF.WF.scriptVars (arg0 d)).flatMap (refIssue splitVars (arg0 d))

def serverIssues (mk : List (List Char × List (List Char))) (splitVars : List (List Char)) (s : Dir) : List Issue :=
  let locs := blocksNamed "location" (body s)
  dupIssue "duplicate-location" showPair (locs.map locKeyL) ++ keyIssues mk locs ++
    locs.flatMap fun l => (named "proxy_pass" (body l)).flatMap (passIssues splitVars)

/-- the arguments of a `listen` directive, as `Spec/WellFormedConf.listenWhy` (`ngx_parse_url`) reads them -/
def listenIssue (d : Dir) : List Issue :=
  match NGF.WF.listenWhy (d.args.map (·.1)) with
  | some why => [⟨"bad-listen", "listen " ++ " ".intercalate d.argStrings ++ ": " ++ why⟩]
  | none => []

/-- the judge: `ds` = the directives of the http block that come from http.conf, `mk` = matches.json (key → redirect paths) -/
def wfDirs (ds : List Dir) (mk : List (List Char × List (List Char))) : List Issue :=
  let servers := blocksNamed "server" ds
  let scs := blocksNamed "split_clients" ds
  let splitVars := scs.map splitVar
  dupIssue "duplicate-listen-server-name" showPair (servers.flatMap srvPairs) ++
  dupIssue "duplicate-default-server" str (servers.flatMap defaultListens) ++
  (scs.flatMap fun sc =>
    if (splitVar sc).all NGF.WF.isVarChar && !(splitVar sc).isEmpty then [] else [⟨"variable-name-not-lexable", "split_clients $" ++ str (splitVar sc)⟩]) ++
  dupIssue "duplicate-variable-definition" (fun v => "http $" ++ str v) splitVars ++
  scs.flatMap splitIssues ++
  servers.flatMap (serverIssues mk splitVars) ++
  servers.flatMap fun s => (named "listen" (body s)).flatMap listenIssue

end NGF.Render
