/-
C12 — model of `internal/mode/static/nginx/runtime/manager.go` (`ManagerImpl.Reload`,
`ProcessHandlerImpl.FindMainProcess`) and `runtime/verify.go` (`WaitForCorrectVersion`,
`ensureNewNginxWorkers`, `EnsureConfigVersion`).

The NGINX master is an *oracle*: finite scripts of what each successive observation returns
(stat of the pid file, content of the pid file, reads of `/proc/<pid>/task/<pid>/children`, the
result of `kill(pid, SIGHUP)`, answers of the version endpoint) plus poll budgets (number of timer
ticks before the respective context deadline).  Nothing is assumed about the scripts.

`wait.PollUntilContextCancel(ctx, interval, immediate = true, cond)`: `cond` is evaluated once
unconditionally, then once per tick while the deadline has not passed; `(true, nil)` stops with
success, a non-nil error aborts at once (it is NOT retried), `(false, nil)` waits for the next tick.
A script that is exhausted means that the deadline passes.
-/
namespace NGF.Reload

/-- outcome of one evaluation of a poll condition -/
inductive Tick | retry | done | abort
  deriving DecidableEq, Repr

inductive PollRes | ok | aborted | deadline
  deriving DecidableEq, Repr

/-- Result, remaining budget, remaining script. -/
def pollLoop {α : Type} (f : α → Tick) : Nat → List α → PollRes × Nat × List α
  | _, [] => (.deadline, 0, [])
  | b, x :: xs =>
    match f x with
    | .done => (.ok, b, xs)
    | .abort => (.aborted, b, xs)
    | .retry => if b = 0 then (.deadline, 0, xs) else pollLoop f (b - 1) xs

/-- `checkFile(PidFile)`: nil error | `fs.ErrNotExist` | any other error -/
inductive PidObs | present | missing | statErr
  deriving DecidableEq, Repr

/-- `readFile(PidFile)` followed by `strconv.Atoi(strings.TrimSpace(..))` -/
inductive PidRead | readErr | garbage | pid (p : Nat)
  deriving DecidableEq, Repr

/-- one read of the children file: error, or content (identified by a number; equal numbers =
equal bytes) -/
inductive ChildRead | err | content (c : Nat)
  deriving DecidableEq, Repr

/-- one `GetConfigVersion()`: any error (dial, timeout, non-200, body not an integer) or a number -/
inductive VerObs | err | ver (v : Int)
  deriving DecidableEq, Repr

structure Oracle where
  pidPolls  : List PidObs     -- successive `checkFile(PidFile)` results
  pidBudget : Nat             -- ticks (500 ms) before `PidFileTimeout`
  pidRead   : PidRead
  prevRead  : ChildRead       -- `processHandler.ReadFile(childProcFile)` before the signal
  kill      : Bool            -- `processHandler.Kill(pid)` succeeded
  children  : List ChildRead  -- successive reads by `ensureNewNginxWorkers` (after the signal)
  versions  : List VerObs     -- successive answers of the version endpoint
  budget    : Nat             -- ticks (25 ms) before the `WaitForCorrectVersion` deadline (shared)
  deriving Repr

inductive Err
  | findPidStat | findPidTimeout | pidRead | pidParse | prevRead | kill
  | workersErr | workersTimeout | versionErr | versionTimeout
  deriving DecidableEq, Repr

def pidTick : PidObs → Tick
  | .present => .done
  | .missing => .retry
  | .statErr => .abort

/-- `ensureNewNginxWorkers` condition: read error aborts; content different from the previous one
is success -/
def childTick (prev : Nat) : ChildRead → Tick
  | .err => .abort
  | .content c => if c = prev then .retry else .done

/-- `EnsureConfigVersion` condition: `return version == expectedVersion, err` -/
def verTick (n : Int) : VerObs → Tick
  | .err => .abort
  | .ver v => if v = n then .done else .retry

def findMainProcess (o : Oracle) : Except Err Nat :=
  match (pollLoop pidTick o.pidBudget o.pidPolls).1 with
  | .aborted => .error .findPidStat
  | .deadline => .error .findPidTimeout
  | .ok =>
    match o.pidRead with
    | .readErr => .error .pidRead
    | .garbage => .error .pidParse
    | .pid p => .ok p

/-- what `WaitForCorrectVersion` did -/
structure WaitOut where
  res        : Option Err   -- `none` = nil error
  childReads : Nat          -- reads of the children file performed
  verReqs    : Nat          -- requests sent to the version endpoint
  deriving DecidableEq, Repr

/-- `VerifyClient.WaitForCorrectVersion(ctx, n, file, prev, readFile)`: both loops run under one
deadline. -/
def waitForCorrectVersion (prev : Nat) (children : List ChildRead) (versions : List VerObs)
    (budget : Nat) (n : Int) : WaitOut :=
  match pollLoop (childTick prev) budget children with
  | (.aborted, _, rest) => ⟨some .workersErr, children.length - rest.length, 0⟩
  | (.deadline, _, rest) => ⟨some .workersTimeout, children.length - rest.length, 0⟩
  | (.ok, b, rest) =>
    let cr := children.length - rest.length
    match pollLoop (verTick n) b versions with
    | (.aborted, _, r2) => ⟨some .versionErr, cr, versions.length - r2.length⟩
    | (.deadline, _, r2) => ⟨some .versionTimeout, cr, versions.length - r2.length⟩
    | (.ok, _, r2) => ⟨none, cr, versions.length - r2.length⟩

structure Out where
  res        : Option Err
  killCalled : Bool         -- `Kill` was invoked (whatever it returned)
  childReads : Nat
  verReqs    : Nat
  deriving DecidableEq, Repr

/-- `ManagerImpl.Reload(ctx, n)`: find pid → read children → HUP → wait for new workers → wait for
version `n`. -/
def reload (o : Oracle) (n : Int) : Out :=
  match findMainProcess o with
  | .error e => ⟨some e, false, 0, 0⟩
  | .ok _ =>
    match o.prevRead with
    | .err => ⟨some .prevRead, false, 0, 0⟩
    | .content prev =>
      if !o.kill then ⟨some .kill, true, 0, 0⟩
      else
        let w := waitForCorrectVersion prev o.children o.versions o.budget n
        ⟨w.res, true, w.childReads, w.verReqs⟩

def reloadOk (o : Oracle) (n : Int) : Bool := (reload o n).res.isNone

end NGF.Reload
