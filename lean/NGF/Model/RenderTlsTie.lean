/-
Translation validation for Model/RenderTls: the REAL http.conf / matches.json of a C16-style scenario (C02's fragment +
HTTPS listeners, Secrets, ReferenceGrants) against `renderT (genTR s order orderS)` / `matchesOfT`. Same filter and
normalisation as RenderTie (kept: js_preload_object, server, split_clients; only split_clients blocks are sorted); the
two port orders (Go maps of the HTTP and of the HTTPS `portPathRules`) are read from the real file. Also: every
`ssl_certificate(_key)` of the real file is one of the real secret files (`ssl_cert_files_defined` on real output).
Core-only; not itself subject of theorems.
-/
import NGF.Model.RenderTls
import NGF.Model.RenderTie
import NGF.Model.PipelineTlsTie

namespace NGF.RenderTlsTie
open NGF.Nginx NGF.Render NGF.RenderTls NGF.RenderTie NGF.Pipeline NGF.PipelineTls

def isSslServer (s : Dir) : Bool :=
  ((s.block.getD []).filter fun c => nameS c == "listen").any fun c => c.argStrings.contains "ssl"

/-- ports in the order in which the real file lists them, for the SSL / non-SSL server blocks -/
def portOrderOf (ssl : Bool) (ds : List Dir) : List Nat :=
  ((ds.filter fun d => nameS d == "server" && isSslServer d == ssl).filterMap fun s =>
    ((s.block.getD []).filter fun c => nameS c == "listen").findSome? fun c => (String.ofList (arg0 c)).toNat?).eraseDups

structure Result where
  inFragment : Bool := false
  why : String := ""
  namesSafe : Bool := false
  portsOK : Bool := false
  /-- `inFragment (httpsPart s)`: the hypothesis of the SSL theorems of Props/C03Render -/
  httpsFrag : Bool := false
  /-- outside the known finding C03:duplicate-ssl-server-from-listener-404 -/
  noDupSsl : Bool := false
  equal : Bool := false
  diff : String := ""
  matchesEqual : Bool := false
  matchesDiff : String := ""
  dirs : Nat := 0
  sslServers : Nat := 0
  sslDefaults : Nat := 0
  certRefs : Nat := 0
  /-- certificate paths of the real http.conf that are not among the real secret files -/
  certMissing : List String := []
  /-- the same on the model: certRefs (renderT c) ⊆ certFiles c -/
  certModelOK : Bool := false
  forgetOK : Bool := false
  wfModel : List NGF.WF.Issue := []
  wfReal : List NGF.WF.Issue := []

def tie (http : List Dir) (matches_ : List (String × List NjsMatch)) (s : NGF.Spec.GatewayAPI.Scenario)
    (secrets : List Tls.SecretObj) (sfiles : List String) : Result :=
  match NGF.PipelineTlsTie.toFragmentT s secrets with
  | .error e => { why := e }
  | .ok fs =>
    if !inFragmentT fs then { why := "inFragmentT" }
    else match extraOutside s with
    | some e => { why := e }
    | none =>
      let c := genTR fs (portOrderOf false http) (portOrderOf true http)
      let model := renderT c
      let x := normalise http
      let y := normalise model
      let mm := (matchesOfT c).map fun km => (String.ofList km.1, km.2)
      let mx := showMatches matches_
      let my := showMatches mm
      let k := http.filter fun d => kept.contains (nameS d)
      let srv := k.filter fun d => nameS d == "server" && isSslServer d
      let refs := certRefs http
      { inFragment := true, namesSafe := Render.namesSafe (allPart fs), portsOK := portsOKT fs, httpsFrag := Pipeline.inFragment (httpsPart fs) && Pipeline.inFragment (httpPart fs), noDupSsl := noDupSsl c,
        equal := x == y, diff := if x == y then "" else firstDiff x y,
        matchesEqual := mx == my, matchesDiff := if mx == my then "" else firstDiff mx my,
        dirs := countD k, sslServers := (srv.filter fun d => !((d.block.getD []).any fun c => nameS c == "ssl_reject_handshake")).length,
        sslDefaults := (srv.filter fun d => (d.block.getD []).any fun c => nameS c == "ssl_reject_handshake").length,
        certRefs := refs.length,
        certMissing := (refs.filter fun r => !sfiles.contains (String.ofList r)).map String.ofList,
        certModelOK := (certRefs model).all fun r => (certFiles c).contains r,
        forgetOK := (c.forget.ssl.map fun p => (NGF.PipelineTie.showConf { ports := [], servers := [p.1] }, p.2)) ==
                    ((genT fs).ssl.map fun p => (NGF.PipelineTie.showConf { ports := [], servers := [p.1] }, p.2)),
        wfModel := wfDirs model (matchKeysOfT c), wfReal := wfDirs http (realKeys matches_) }

end NGF.RenderTlsTie
