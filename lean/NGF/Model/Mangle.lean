/-
Name manglings of the NGINX configuration generator (C03). Each function mirrors one Go function:

  safeVar        convertStringToSafeVariableName   nginx/config/variable_names.go
  addHdrVar      generateAddHeaderMapVariableName  nginx/config/variable_names.go
  groupName      (*BackendGroup).Name              state/dataplane/types.go
  groupVar       convertStringToSafeVariableName(group.Name())   split_clients.go / servers.go
  upstreamName   BackendRef.ServicePortReference   state/graph/backend_refs.go
  keyPairId/pemFile     generateSSLKeyPairID + generatePEMFileName
  bundleId/bundleFile   generateCertBundleID + generateCertBundleFileName
  cspFile        clientsettings.generate (file name) + includesFolder
  sockTLS/sockHTTPS/passVar   nginx/config/sockets.go

`sprintf` interprets the Go format strings (only %s and %d occur), so that the format literals
regenerated from the source (NGF.Generated.ConfNameFacts) can be tied to these definitions.
Core Lean only; everything is over `List Char`.
-/
namespace NGF.Mangle

def lit (s : String) : List Char := s.toList

/-- `strings.ReplaceAll(s, "-", "_")` -/
def safeVar (s : List Char) : List Char := s.map fun c => if c = '-' then '_' else c

/-- ASCII lower-casing (`strings.ToLower` on the ASCII header names the API admits) -/
def lowerC (c : Char) : Char := if 'A' ≤ c ∧ c ≤ 'Z' then Char.ofNat (c.toNat + 32) else c
def lower (s : List Char) : List Char := s.map lowerC

/-- decimal rendering of a natural number (`%d` on non-negative ints) -/
def digits (n : Nat) : List Char := Nat.toDigits 10 n

/-- Go `fmt.Sprintf` restricted to `%s` / `%d` verbs with pre-rendered arguments. -/
def sprintf : List Char → List (List Char) → List Char
  | [], _ => []
  | '%' :: 's' :: rest, a :: as => a ++ sprintf rest as
  | '%' :: 'd' :: rest, a :: as => a ++ sprintf rest as
  | c :: rest, as => c :: sprintf rest as

def groupName (ns name : List Char) (idx : Nat) : List Char :=
  lit "group_" ++ ns ++ lit "__" ++ name ++ lit "_rule" ++ digits idx

def groupVar (ns name : List Char) (idx : Nat) : List Char := safeVar (groupName ns name idx)

def upstreamName (ns svc : List Char) (port : Nat) : List Char :=
  ns ++ lit "_" ++ svc ++ lit "_" ++ digits port

def keyPairId (ns name : List Char) : List Char := lit "ssl_keypair_" ++ ns ++ lit "_" ++ name
def pemFile (ns name : List Char) : List Char := lit "/etc/nginx/secrets/" ++ keyPairId ns name ++ lit ".pem"

def bundleId (ns name : List Char) : List Char := lit "cert_bundle_" ++ ns ++ lit "_" ++ name
def bundleFile (ns name : List Char) : List Char := lit "/etc/nginx/secrets/" ++ bundleId ns name ++ lit ".crt"

def cspFile (ns name : List Char) : List Char :=
  lit "/etc/nginx/includes/" ++ lit "ClientSettingsPolicy_" ++ ns ++ lit "_" ++ name ++ lit ".conf"

def sockTLS (port : Nat) (host : List Char) : List Char :=
  lit "unix:/var/run/nginx/" ++ host ++ lit "-" ++ digits port ++ lit ".sock"

def sockHTTPS (port : Nat) : List Char := lit "unix:/var/run/nginx/https" ++ digits port ++ lit ".sock"

def passVar (port : Nat) : List Char := lit "$dest" ++ digits port

def addHdrVar (name : List Char) : List Char := lower (safeVar name) ++ lit "_header_var"

/-- the character class NGINX accepts in a variable name (`ngx_http_script_compile`) -/
def isVarChar (c : Char) : Bool := c.isAlphanum || c == '_'

/-- the unix socket path inside a `unix:` address -/
def sockPath (addr : List Char) : List Char := addr.drop 5

/-! ### Path scheme of createLocations (servers.go): the external location(s) of a path rule -/

inductive PathType | exact | prefix
  deriving DecidableEq, Repr

/-- `(exact?, path)`: `location = path` (true) or the prefix location `location path` (false) -/
abbrev LocKey := Bool × List Char

/-- `initializeExternalLocations`: the location keys generated for one path rule, given which
`(path, type)` pairs exist among the rules of the server (`pathsAndTypes`). -/
def externalLocs (exists_ : List Char → PathType → Bool) (path : List Char) (ty : PathType) : List LocKey :=
  match ty with
  | .exact => [(true, path)]
  | .prefix =>
    if path.getLast? = some '/' then [(false, path)]
    else
      (if exists_ (path ++ ['/']) .prefix then [] else [(false, path ++ ['/'])]) ++
      (if exists_ path .exact then [] else [(true, path)])

/-- all external location keys of a server whose path rules are `rules` -/
def serverExternalLocs (rules : List (List Char × PathType)) : List LocKey :=
  rules.flatMap fun r => externalLocs (fun p t => decide ((p, t) ∈ rules)) r.1 r.2

/-- `initializeInternalLocation`: path of the internal location of match `j` of path rule `i` -/
def internalLocPath (i j : Nat) : List Char :=
  lit "/_ngf-internal" ++ lit "-rule" ++ digits i ++ lit "-route" ++ digits j

/-- `createMainRewriteForFilters` for `ReplacePrefixMatch`: the `rewrite` arguments (regex, replacement). -/
def endsSlash (s : List Char) : Bool := s.getLast? == some '/'

def rewriteRegex (filterPrefix path : List Char) : List Char :=
  if endsSlash filterPrefix && !endsSlash path then '^' :: path ++ lit "(?:/([^?]*))?" else '^' :: path ++ lit "([^?]*)?"

def mainRewritePrefix (replacement path : List Char) : List Char :=
  let fp := if replacement = [] then ['/'] else replacement
  let repl := if endsSlash path && !endsSlash fp then fp ++ lit "/$1?$args?" else fp ++ lit "$1?$args?"
  rewriteRegex fp path ++ [' '] ++ repl

end NGF.Mangle
