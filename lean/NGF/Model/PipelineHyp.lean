/-
C02, stage 2: the decidable side conditions of the end-to-end refinement theorem
`route_refines_spec_fragment` (Props/C02.lean) beyond `inFragment` and `noShadow`, as executable predicates — the
driver evaluates `nginxEvalConf (gen s) q = routeF s q` on exactly the (scenario, request) pairs they allow.

* `reqOK`: the request is well-formed — the Host is a concrete name (not a `*.x` pattern, not the regex `~^`,
  shorter than 100000), the path starts with `/`, and no header value contains a comma (njs `headersMatch` splits
  header values at `,`, the specification `headerHit` compares whole header lines: a value with a comma is read
  as a list by one and as one value by the other; Gateway API leaves repeated / list-valued headers to the
  implementation).
* `namesPlain`: no listener / route hostname is literally `~^` (NGINX reads a server name starting with `~` as a
  regex; the hostname validation of the real code rejects such a name long before, `Pipeline.hostOK` does not).
* `routesHaveRules`: every valid route has at least one rule with at least one match. A route WITHOUT rules still
  gets `server` blocks for its accepted hostnames (`upsertRoute` creates `rulesPerHost[h]` before looking at the
  rules), which then answer 404 for hosts a less specific route would serve; `routeF` knows only candidates
  (rule matches), so it routes to the less specific one.
Core-only.
-/
import NGF.Model.Pipeline

namespace NGF.Pipeline

def reqOK (q : Req) : Bool :=
  !NGF.NginxEval.isWildName q.host && q.host != NGF.NginxEval.catchAll && decide (q.host.length < 100000) &&
  q.path.head? == some '/' && q.headers.all fun h => !h.2.contains ','

def namesPlain (s : Scenario) : Bool :=
  (s.routes.all fun r => r.hostnames.all fun h => h != NGF.NginxEval.catchAll) &&
  match winner s with
  | none => true
  | some g => g.listeners.all fun l => l.host != NGF.NginxEval.catchAll

def routesHaveRules (s : Scenario) : Bool :=
  s.routes.all fun r => !r.valid || r.rules.any fun rule => !rule.ms.isEmpty

/-- everything the refinement theorem asks of the scenario -/
def refineOK (s : Scenario) : Bool := inFragment s && noShadow (gen s) && namesPlain s && routesHaveRules s

end NGF.Pipeline
