/-
C07 over the TLS layer — the tie: `PipelineTlsTie.toFragmentT` (the view C16 uses to validate `genT` against the real files) of the flat
scenario + Secrets; `PipelineStatusTls.gatewayStatusT` / `routeParentStatusesT` against the REAL statuses. Listener conditions are
compared as sets of (type, status) (+ attachedRoutes, + observedGeneration); ResolvedRefs is masked for listeners whose certificateRefs the
validator rejects (`cert = none`); route parent entries as in `PipelineStatusTie` (reason of ResolvedRefs=False masked). Not subject of theorems.
-/
import NGF.Model.PipelineTlsTie
import NGF.Model.PipelineStatusTls
import NGF.Model.PipelineStatusTie

namespace NGF.PipelineStatusTlsTie
open NGF.Pipeline NGF.PipelineTls NGF.PipelineStatus NGF.PipelineStatusTls
open NGF.StatusPrep (ApiCond ListenerStatus GatewayStatus Prepared)

def condSet (mask : Bool) (cs : List ApiCond) : List String :=
  ((cs.filter fun c => !(mask && c.type == "ResolvedRefs")).map fun c => c.type ++ "=" ++ c.status ++ "@" ++ toString c.gen).mergeSort fun a b => a ≤ b

structure Report where
  listeners : Nat := 0
  invalidListeners : Nat := 0
  conflicted : Nat := 0
  unresolved : Nat := 0
  certRejected : Nat := 0
  attachedOnInvalid : Nat := 0
  parents : Nat := 0
  reasons : List String := []
  diffs : List String := []

def compareT (fs : ScenarioT) (reloadErr : Bool) (genOf : String → String → String → Int) (real : Prepared) : Report := Id.run do
  let mut rep : Report := {}
  match classState (allPart fs), winnerT fs with
  | .ours, some g =>
    let ns := str g.ns
    let name := str g.name
    let gen := genOf "Gateway" ns name
    match gatewayStatusT fs reloadErr gen, real.gateways.find? (fun x => x.ns == ns && x.name == name) with
    | some m, some x =>
      if condSet false m.conds != condSet false x.conds then
        rep := { rep with diffs := rep.diffs ++ [s!"gateway-conditions:model={condSet false m.conds}:real={condSet false x.conds}"] }
      if m.listeners.length != x.listeners.length then
        rep := { rep with diffs := rep.diffs ++ [s!"listener-count:model={m.listeners.length}:real={x.listeners.length}"] }
      for (l, ml) in g.listeners.zip m.listeners do
        let v := validL fs g l
        rep := { rep with listeners := rep.listeners + 1,
                          invalidListeners := rep.invalidListeners + (if v then 0 else 1),
                          conflicted := rep.conflicted + (if l.fieldsOK && conflicted g l then 1 else 0),
                          unresolved := rep.unresolved + (if l.fieldsOK && l.https && decide (resolution fs g l ≠ .ok) then 1 else 0),
                          certRejected := rep.certRejected + (if l.fieldsOK then 0 else 1),
                          attachedOnInvalid := rep.attachedOnInvalid + (if v then 0 else ml.attachedRoutes) }
        match x.listeners.find? (·.name == ml.name) with
        | none => rep := { rep with diffs := rep.diffs ++ [s!"listener-missing:{ml.name}"] }
        | some xl =>
          let mask := !l.fieldsOK
          if condSet mask ml.conds != condSet mask xl.conds || ml.attachedRoutes != xl.attachedRoutes then
            rep := { rep with diffs := rep.diffs ++
              [s!"listener:{ml.name}:model={condSet mask ml.conds}/{ml.attachedRoutes}:real={condSet mask xl.conds}/{xl.attachedRoutes}"] }
    | _, _ => rep := { rep with diffs := rep.diffs ++ ["gateway-object-missing"] }
  | _, _ => pure ()
  for r in fs.routes do
    let ns := str r.ns
    let name := str r.name
    let realParents := (real.routes.find? (fun x => x.kind == "HTTPRoute" && x.ns == ns && x.name == name)).map (·.parents)
    match classState (allPart fs), winnerT fs with
    | .ours, some _ =>
      match routeParentStatusesT fs reloadErr (genOf "HTTPRoute" ns name) r, realParents with
      | some ms, some ps =>
        rep := { rep with parents := rep.parents + ms.length, reasons := rep.reasons ++ ms.map NGF.PipelineStatusTie.acceptedReason }
        if ps.map NGF.PipelineStatusTie.maskParent != ms then
          rep := { rep with diffs := rep.diffs ++ [s!"route:{ns}/{name}:model={repr (ms.map fun m => (m.sectionName, NGF.PipelineStatusTie.acceptedReason m, resolvedFalse m))}:real={repr (ps.map fun m => (m.sectionName, NGF.PipelineStatusTie.acceptedReason m, resolvedFalse m))}"] }
      | none, some ps => if !ps.isEmpty then rep := { rep with diffs := rep.diffs ++ [s!"route-unexpected-status:{ns}/{name}"] }
      | _, none => rep := { rep with diffs := rep.diffs ++ [s!"route-object-missing:{ns}/{name}"] }
    | _, _ => pure ()
  return rep

def Report.render (r : Report) : String :=
  let head := s!"listeners={r.listeners} invalid={r.invalidListeners} conflicted={r.conflicted} unresolved={r.unresolved} certRejected={r.certRejected} " ++
    s!"attachedOnInvalid={r.attachedOnInvalid} parents={r.parents} reasons=" ++
    ",".intercalate ((NGF.PipelineStatusTie.countStrs r.reasons).map fun x => s!"{x.1}:{x.2}")
  if r.diffs.isEmpty then "ok " ++ head
  else (("diff " ++ head ++ " ## " ++ " ;; ".intercalate r.diffs).replace "\n" " ").replace "  " " "

end NGF.PipelineStatusTlsTie
