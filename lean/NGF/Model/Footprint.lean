/-
C01 — footprint model: what `BuildGraph` (+ `BuildConfiguration`) READS of each dependent kind, and which
objects `Graph.IsReferenced` declares referenced, following the Go code:

  Services       `buildReferencedServices` (graph/service.go): backendRefs (`SvcNsName`) of the VALID L7/L4 routes
                 that belong to the winning Gateway;   read by `createBackendRef` → `getIPFamilyAndPortFromRef`
                 (`getServicePort`: ports; `svc.Spec.IPFamilies` for `verifyIPFamily`) for EVERY valid route of the
                 graph (`addBackendRefsToRouteRules` ranges over all routes, also those of ignored Gateways) and by
                 `validateBackendRefTLSRoute`; the resolver matches EndpointSlice ports by the ServicePort NAME.
  EndpointSlices `IsReferenced`: owner (service-name label) ∈ ReferencedServices — of the stored and of the new
                 object since /repo ecaa5d2; read by the ServiceResolver for referenced Services only.
  Namespaces     `buildReferencedNamespaces` + `isNamespaceReferenced`: labels match the label selector of some
                 listener of the winning Gateway; read by `isRouteNamespaceAllowedByListener` through
                 `selector.Matches(labels)` only.
  NginxProxy     `isNginxProxyReferenced`: the winning GatewayClass' parametersRef names it (group/kind checked by
                 `gcReferencesAnyNginxProxy`); read by `buildNginxProxy` under the same test.
  NGF policies   `IsNGFPolicyRelevant`: in `g.NGFPolicies` OR any targetRef resolves (Gateway winner/ignored, route in
                 `g.Routes`, Service in ReferencedServices); `processPolicies` admits a policy under the same test.
  Secrets        `secretResolver.resolve` is called for `certificateRefs[0]` of HTTPS listeners (same namespace or
                 permitted by a ReferenceGrant); `ReferencedSecrets` = the resolved names, missing ones included.
  ConfigMaps     `validateBackendTLSCACertRef`: `configMapResolver.resolve(btp.ns/caCertRefs[0].name)` for every
                 BackendTLSPolicy with exactly one CA ref of kind ConfigMap, group ""/core and no wellKnown certs.

The generic part (`Frame`) turns such a description into an instance of the store model of `NGF.Model.Store`:
the cluster is (core, objects of the kind), the build is the most informative function that reads an object `o`
at key `k` only if `reads core k o`, and then only `view core o`; the relevance predicate is
`isRef(new) || isRef(stored)`. Every real build that respects the reading discipline is a function of it.
Core Lean only.
-/
import NGF.Model.Store

namespace NGF.Footprint
open NGF.Store

/-- "namespace/name" -/
abbrev NN := String

def upd {β : Type} (f : NN → Option β) (k : NN) (v : Option β) : NN → Option β :=
  fun j => if j = k then v else f j

/-- The reading discipline of one dependent kind. -/
structure Frame (Core ObjK View : Type) where
  /-- does the build look at object `o` stored under `k` -/
  reads  : Core → NN → ObjK → Bool
  /-- what it reads of it -/
  view   : Core → ObjK → View
  /-- `Graph.IsReferenced` for the object, against the graph built from `core` -/
  isRef  : Core → NN → ObjK → Bool
  /-- the watch predicate of the kind's controller on updates (`true` = delivered) -/
  watchU : ObjK → ObjK → Bool
  /-- the predicate also answers `true` when the key is in the LATEST graph (`existed` of the Namespace case of
  `Graph.IsReferenced`: `g.ReferencedNamespaces[nsname]`; `g.NGFPolicies[key]` of `IsNGFPolicyRelevant`) -/
  seenRef : Bool := false

/-- cluster = everything else (`core`) + the objects of the kind -/
structure Cl (Core ObjK : Type) where
  core : Core
  objs : NN → Option ObjK

/-- what a rebuild derives: the core (routes, gateways, … — whatever is not of this kind) and, per key, the
view of the object if it is read -/
structure Gr (Core View : Type) where
  core : Core
  seen : NN → Option View

inductive FK | core | obj
  deriving DecidableEq, Repr

variable {Core ObjK View : Type}

abbrev FEvent (Core ObjK : Type) := Event FK NN (Sum Core ObjK)

def build (F : Frame Core ObjK View) (c : Cl Core ObjK) : Gr Core View where
  core := c.core
  seen k := (c.objs k).bind fun o => if F.reads c.core k o then some (F.view c.core o) else none

def storeF (e : FEvent Core ObjK) (c : Cl Core ObjK) : Cl Core ObjK :=
  match e.kind, e.obj with
  | .core, some (.inl nc) => { c with core := nc }
  | .obj, some (.inr o)   => { c with objs := upd c.objs e.key (some o) }
  | .obj, none            => { c with objs := upd c.objs e.key none }
  | _, _                  => c

/-- every kind is persisted; only the dependent kind has a predicate (`funcPredicate{isReferenced}`), everything in
the core has `predicate: nil`; `delete` hands the stored object to the predicate. -/
def ops : Ops FK NN (Sum Core ObjK) (Cl Core ObjK) where
  persisted _ := true
  hasPred k := k == .obj
  isEndpoints _ := false
  get c k key := match k with
    | .core => some (.inl c.core)
    | .obj => (c.objs key).map .inr
  store := storeF
  cache _ c := c
  delSeesOld := true

def refOf (F : Frame Core ObjK View) (core : Core) (k : NN) : Option (Sum Core ObjK) → Bool
  | some (.inr o) => F.isRef core k o
  | _ => false

/-- `funcPredicate.upsert(old,new) = stateChanged(new) || (old != nil && stateChanged(old))`, `delete(subject)`
with `subject` = the stored object; evaluated against the LATEST graph. -/
def rel (F : Frame Core ObjK View) (latest : Option (Gr Core View)) (old : Option (Sum Core ObjK))
    (e : FEvent Core ObjK) : Bool :=
  match latest with
  | none => false
  | some g =>
    match e.obj with
    | some (.inl _) => true
    | new => (F.seenRef && (g.seen e.key).isSome) || refOf F g.core e.key new || refOf F g.core e.key old

/-- creates, deletes and everything of the core are delivered; updates go through the kind's watch predicate -/
def watch (F : Frame Core ObjK View) (t : Cl Core ObjK) (e : FEvent Core ObjK) : Bool :=
  match e.kind, e.obj with
  | .obj, some (.inr n) => (match t.objs e.key with | some o => F.watchU o n | none => true)
  | _, _ => true

/-- two objects the build cannot tell apart -/
def Eqv (F : Frame Core ObjK View) (a b : ObjK) : Prop :=
  ∀ core k, F.view core a = F.view core b ∧ F.reads core k a = F.reads core k b

def RelOpt (F : Frame Core ObjK View) : Option ObjK → Option ObjK → Prop
  | none, none => True
  | some a, some b => Eqv F a b
  | _, _ => False

/-- the (possibly stale) store stands in for the cluster -/
def R (F : Frame Core ObjK View) (s t : Cl Core ObjK) : Prop :=
  s.core = t.core ∧ ∀ k, RelOpt F (s.objs k) (t.objs k)

/-- admissible mutations: `admCore` for the cluster's core whenever an object of the kind changes, `admU old new`
for updates -/
def adm (admCore : Core → Bool) (admU : ObjK → ObjK → Bool) (t : Cl Core ObjK) (e : FEvent Core ObjK) : Bool :=
  match e.kind with
  | .core => true
  | .obj => admCore t.core &&
      (match e.obj, t.objs e.key with
       | some (.inr n), some o => admU o n
       | _, _ => true)

end NGF.Footprint

/-! ## The concrete kinds -/
namespace NGF.Footprint

/-! ### Services -/

/-- one `v1.ServicePort` as far as it is read: `getServicePort` (port), resolver (`name`), `getDefaultPort` (`targetPort`) -/
structure SvcPort where
  port   : Nat
  name   : String
  target : String
  deriving DecidableEq, Repr

/-- a Service as far as it is read: the ports IN ORDER (`getServicePort` returns the first entry with the port
number) and `spec.ipFamilies` (`verifyIPFamily`) -/
structure Svc where
  ports      : List SvcPort
  ipFamilies : List String
  deriving DecidableEq, Repr

/-- a route of the graph after `addBackendRefsToRouteRules` / `buildTLSRoute` -/
structure RouteM where
  valid    : Bool
  /-- `ParentRefs[i].Gateway` -/
  parents  : List NN
  /-- `SvcNsName` of every BackendRef ("" = empty: the ref did not pass `validateRouteBackendRef`) -/
  backends : List NN
  deriving DecidableEq, Repr

structure SvcCore where
  /-- the winning Gateway (`graph.Gateway`), none = nil -/
  winner : Option NN
  /-- L7 and L4 routes of the graph (routes of ignored Gateways included) -/
  routes : List RouteM
  deriving DecidableEq, Repr

def svcNames (r : RouteM) : List NN := r.backends.filter (· != "")

/-- `buildReferencedServices`: valid routes that belong to the winning Gateway -/
def referencedServices (c : SvcCore) : List NN :=
  match c.winner with
  | none => []
  | some w => (c.routes.filter fun r => r.valid && r.parents.contains w).flatMap svcNames

/-- the Services `createBackendRef` / `validateBackendRefTLSRoute` look up: every valid route of the graph -/
def readServices (c : SvcCore) : List NN := (c.routes.filter (·.valid)).flatMap svcNames

/-- repaired `buildReferencedServices`: without the `belongsToWinningGw` filter -/
def referencedServicesR (c : SvcCore) : List NN := readServices c

def pairs (s : Svc) : List (Nat × String) := s.ports.map fun p => (p.port, p.target)

/-- `ServicePortsChangedPredicate.Update`: length check, then set equality of the (port,targetPort) pairs -/
def watchSvc (o n : Svc) : Bool :=
  if o.ports.length != n.ports.length then true
  else !((pairs o).all ((pairs n).contains ·)) || !((pairs n).all ((pairs o).contains ·))

/-- repaired predicate: everything that is read, in order -/
def watchSvcR (o n : Svc) : Bool := o != n

def svcFrame : Frame SvcCore Svc Svc where
  reads c k _ := (readServices c).contains k
  view _ o := o
  isRef c k _ := (referencedServices c).contains k
  watchU := watchSvc

def svcFrameR : Frame SvcCore Svc Svc where
  reads c k _ := (readServices c).contains k
  view _ o := o
  isRef c k _ := (referencedServicesR c).contains k
  watchU := watchSvcR

/-- current code, excluded region 1: some valid route of the graph does not belong to the winning Gateway and
names a Service no route of the winning Gateway names -/
def svcAdmCore (c : SvcCore) : Bool := (readServices c).all ((referencedServices c).contains ·)

/-- current code, excluded region 2: an update that the watch predicate filters although it changes something
that is read (port name, port order, ipFamilies) -/
def svcAdmU (o n : Svc) : Bool := o == n || watchSvc o n

/-! ### EndpointSlices (after ecaa5d2) -/

structure SliceM where
  /-- `kubernetes.io/service-name` label, as "namespace/name" -/
  owner   : NN
  payload : Nat
  deriving DecidableEq, Repr

def sliceFrame : Frame SvcCore SliceM SliceM where
  reads c _ o := (referencedServices c).contains o.owner
  view _ o := o
  isRef c _ o := (referencedServices c).contains o.owner
  watchU _ _ := true

/-! ### Namespaces -/

abbrev Labels := List (String × String)

/-- a listener of the winning Gateway that has an `AllowedRouteLabelSelector` (matchLabels), whatever its validity:
an invalid listener may still be attachable, and `isRouteNamespaceAllowedByListener` evaluates its selector when
routes are bound (their status reports the attachment) -/
structure NsListener where
  valid : Bool
  sel   : Labels
  deriving DecidableEq, Repr

structure NsCore where
  listeners : List NsListener
  deriving DecidableEq, Repr

def NsCore.sels (c : NsCore) : List Labels := c.listeners.map (·.sel)

def selMatches (sel labels : Labels) : Bool := sel.all (labels.contains ·)

/-- `isNamespaceReferenced`: ALL listeners with a selector, valid or not -/
def nsReferenced (c : NsCore) (l : Labels) : Bool := c.listeners.any (selMatches ·.sel l)

/-- weakened variant (pre-image of seeded change C01-r3m1): invalid listeners are skipped -/
def nsReferencedValidOnly (c : NsCore) (l : Labels) : Bool := c.listeners.any fun x => x.valid && selMatches x.sel l

/-- `buildReferencedNamespaces` -/
def referencedNamespaces (c : NsCore) (nss : List (NN × Labels)) : List NN :=
  (nss.filter fun p => nsReferenced c p.2).map (·.1)

def nsFrame : Frame NsCore Labels (List Bool) where
  reads c _ l := nsReferenced c l
  -- `isRouteNamespaceAllowedByListener`: `selector.Matches(ns.Labels)` per selector listener
  view c l := c.sels.map (selMatches · l)
  -- `existed || exists`: `exists := isNamespaceReferenced(obj, g.Gateway)`, `existed` = in `g.ReferencedNamespaces`
  isRef c _ l := nsReferenced c l
  seenRef := true
  -- `LabelChangedPredicate`
  watchU o n := o != n

/-- the weakened variant: `isNamespaceReferenced` (hence also `ReferencedNamespaces`, i.e. `existed`) skips invalid
listeners, while attachment still reads the selectors of all of them -/
def nsFrameValidOnly : Frame NsCore Labels (List Bool) where
  reads c _ l := nsReferenced c l
  view c l := c.sels.map (selMatches · l)
  isRef c _ l := nsReferencedValidOnly c l
  watchU o n := o != n

/-! ### Secrets and ConfigMaps: referenced by name -/

structure ListenerM where
  protocol : String
  certRef  : NN
  /-- same namespace as the Gateway, or `refGrantResolver.refAllowed` -/
  allowed  : Bool
  deriving DecidableEq, Repr

structure SecCore where
  listeners : List ListenerM
  deriving DecidableEq, Repr

/-- the names `createExternalReferencesForTLSSecretsResolver` can hand to `secretResolver.resolve` (upper bound:
the resolver only runs for listeners that passed the field validators) -/
def secretCandidates (c : SecCore) : List NN :=
  (c.listeners.filter fun l => l.protocol == "HTTPS" && l.allowed).map (·.certRef)

structure BtpM where
  ns        : String
  nrefs     : Nat
  wellKnown : Bool
  kind      : String
  group     : String
  name      : String
  deriving DecidableEq, Repr

structure CmCore where
  hasGateway : Bool
  btps : List BtpM
  deriving DecidableEq, Repr

/-- `processBackendTLSPolicies` → `validateBackendTLSPolicy` → `validateBackendTLSCACertRef` → `resolve` -/
def referencedConfigMaps (c : CmCore) : List NN :=
  if c.hasGateway then
    (c.btps.filter fun b => b.nrefs == 1 && !b.wellKnown && b.kind == "ConfigMap" && (b.group == "" || b.group == "core")).map
      fun b => b.ns ++ "/" ++ b.name
  else []

/-- an object kind that the graph resolves by name only -/
def byName {Core : Type} (refs : Core → List NN) : Frame Core Nat Nat where
  reads c k _ := (refs c).contains k
  view _ o := o
  isRef c k _ := (refs c).contains k
  -- `ResourceVersionChangedPredicate` / no predicate: every write is delivered
  watchU _ _ := true

def secretFrame : Frame SecCore Nat Nat := byName secretCandidates
def configMapFrame : Frame CmCore Nat Nat := byName referencedConfigMaps

/-- weakened variant of a by-name kind: the resolver records only the objects it FOUND (`resolve` returning early for
a missing object: pre-image of seeded change C01-r3m2), so the referenced set of the latest graph holds a name only if
the object existed when the graph was built -/
def byNameForgetMissing {Core : Type} (refs : Core → List NN) : Frame Core Nat Nat where
  reads c k _ := (refs c).contains k
  view _ o := o
  isRef _ _ _ := false
  seenRef := true
  watchU _ _ := true

/-! ### NginxProxy: `isNginxProxyReferenced` -/

/-- `gc.Spec.ParametersRef` of the winning GatewayClass -/
structure ParamsRef where
  group : String
  kind  : String
  name  : String
  deriving DecidableEq, Repr

structure NpCore where
  /-- `g.GatewayClass` (the class named by the configuration, if it exists) and its parametersRef -/
  gatewayClass : Option (Option ParamsRef)
  deriving DecidableEq, Repr

def ngfGroup : String := "gateway.nginx.org"

/-- `gcReferencesAnyNginxProxy` + the name comparison of `isNginxProxyReferenced` (NginxProxy is cluster-scoped in
this version: the key is the name, `buildNginxProxy` looks `nps[{Name: paramsRef.Name}]` up) -/
def npReferenced (c : NpCore) (k : NN) : Bool :=
  match c.gatewayClass with
  | some (some r) => r.group == ngfGroup && r.kind == "NginxProxy" && r.name == k
  | _ => false

def nginxProxyFrame : Frame NpCore Nat Nat where
  -- `buildNginxProxy`: `nps[{Name: gc.Spec.ParametersRef.Name}]` when `gcReferencesAnyNginxProxy(gc)`
  reads c k _ := npReferenced c k
  view _ o := o
  isRef c k _ := npReferenced c k
  -- `GenerationChangedPredicate`: every spec change is delivered
  watchU o n := o != n

/-- weakened variant: referenced only if `buildNginxProxy` found it (`g.NginxProxy != nil`) -/
def nginxProxyFrameForgetMissing : Frame NpCore Nat Nat :=
  { byNameForgetMissing (fun c => match c.gatewayClass with
      | some (some r) => if r.group == ngfGroup && r.kind == "NginxProxy" then [r.name] else []
      | _ => []) with watchU := fun o n => o != n }

/-! ### NGF policies: `IsNGFPolicyRelevant` / `processPolicies` -/

/-- `LocalPolicyTargetReference` -/
structure TargetRef where
  group : String
  kind  : String
  name  : String
  deriving DecidableEq, Repr

/-- a policy as far as relevance goes: namespace, targetRefs IN ORDER, and the rest of the spec -/
structure PolicyM where
  ns      : String
  refs    : List TargetRef
  payload : Nat
  deriving DecidableEq, Repr

structure PolCore where
  /-- `g.Gateway != nil` -/
  hasWinner : Bool
  /-- the winning Gateway and the ignored ones (`gatewayExists`) -/
  gateways  : List NN
  /-- keys of `g.Routes`: ("HTTPRoute" | "GRPCRoute", namespace/name) -/
  routes    : List (String × NN)
  /-- `g.ReferencedServices` -/
  refSvcs   : List NN
  deriving DecidableEq, Repr

def gatewayGroup : String := "gateway.networking.k8s.io"

/-- one targetRef resolves against the graph: `gatewayAPIResourceExist` for the gateway group (Gateway: winner or
ignored; HTTPRoute/GRPCRoute: in `g.Routes`), `ReferencedServices` for a core Service — the same test
`processPolicies` applies when it decides whether the policy enters the graph -/
def refResolves (c : PolCore) (ns : String) (r : TargetRef) : Bool :=
  let nn := ns ++ "/" ++ r.name
  if r.group == gatewayGroup then
    if r.kind == "Gateway" then c.hasWinner && c.gateways.contains nn
    else if r.kind == "HTTPRoute" || r.kind == "GRPCRoute" then c.routes.contains (r.kind, nn)
    else false
  else if r.group == "" || r.group == "core" then r.kind == "Service" && c.refSvcs.contains nn
  else false

/-- `IsNGFPolicyRelevant` without the in-graph clause: ANY targetRef resolves (all of them are considered) -/
def policyRelevant (c : PolCore) (p : PolicyM) : Bool := p.refs.any (refResolves c p.ns)

/-- `processPolicies`: the policy enters the graph iff there is a winning Gateway and some targetRef resolves -/
def policyInGraph (c : PolCore) (p : PolicyM) : Bool := c.hasWinner && policyRelevant c p

/-- weakened variant (seeded change C01-m3): only the FIRST targetRef decides -/
def policyRelevantFirst (c : PolCore) (p : PolicyM) : Bool :=
  match p.refs with
  | r :: _ => refResolves c p.ns r
  | [] => false

def policyFrame : Frame PolCore PolicyM PolicyM where
  reads c _ p := policyInGraph c p
  view _ p := p
  isRef c _ p := policyRelevant c p
  -- `if _, exists := g.NGFPolicies[key]; exists { return true }`
  seenRef := true
  -- `GenerationChangedPredicate`
  watchU o n := o != n

def policyFrameFirstRef : Frame PolCore PolicyM PolicyM :=
  { policyFrame with isRef := fun c _ p => policyRelevantFirst c p }

end NGF.Footprint
