/-
C01 pipeline stream — the executable tie between `NGF.Model.StorePipeline` (the store/handler machine over the concrete
pipeline model) and the REAL long-lived controller along in-fragment histories (harness/c01/pipeline.go).

The driver decodes the cluster states (C13's pipeE encoding → `PipelineRefsTie.toScenarioR` → `toPCl`) and the steps; `replay`
runs the SAME `stepH (pHandler front) pOps (pBuild true) pRel pWatch` the theorems of `Props/C01Pipeline` are about and
compares
  * per event: `Handler.forwards` with what the real handler did, and `Store.verdict pOps pRel` — the MODELLED relevance
    predicate, evaluated against the model's own latest graph and store — with the decision of the real predicate;
  * per batch: the change type `Process` returns;
  * per drained point: the applied configuration (`PipelineTie.abstractConf` of the real http.conf vs. `applied.conf`, order
    normalised by `PipelineTie.confDiff`), the upstream blocks, `ReferencedServices`; and, as the executable echo of
    `pipeline_config_converges`, the model's applied output against `pBuild` of the decoded CURRENT cluster.
Core-only; not itself subject of theorems.
-/
import NGF.Model.StorePipeline
import NGF.Model.PipelineTie
import NGF.Model.PipelineRefsTie

namespace NGF.StorePipelineTie
open NGF.Store NGF.StorePipeline
open NGF.Pipeline (Conf)
open NGF.PipelineRefs (ScenarioR)
open NGF.PipelineEndpoints (PortInfo)
open NGF.Resolver (SvcPort)

/-- the `spec.ports` entry of a Service port number (as `PipelineEndpoints.servicePort` finds it) -/
def portOf (ports : List PortInfo) (ns name : String) (port : Nat) : SvcPort :=
  match ports.find? (fun i => i.ns == ns && i.name == name && i.sp.port == port) with
  | some i => i.sp
  | none => ⟨"", port, .int 0⟩

/-- the cluster of the store model from the decoded harness view -/
def toPCl (base : ScenarioR) (ports : List PortInfo) (slices : List SliceObj) : PCl :=
  { cls := base.cls, ctlr := base.ctlr, classes := base.classes, gateways := base.gateways, routes := base.routes,
    svcs := base.services.map fun s => { ns := s.ns, name := s.name, ports := s.ports.map (portOf ports s.ns s.name) },
    grants := base.grants, slices := slices }

def parseKind : String → Option PKind
  | "GatewayClass" => some .gatewayClass
  | "Gateway" => some .gateway
  | "HTTPRoute" => some .httpRoute
  | "Service" => some .service
  | "ReferenceGrant" => some .referenceGrant
  | "EndpointSlice" => some .endpointSlice
  | _ => none

structure EvIn where
  kind : PKind
  key : Key
  del : Bool
  state : Nat
  fwd : Bool
  changed : Bool

structure CutIn where
  hasFiles : Bool
  /-- `PipelineTie.abstractConf` of the real http.conf (error = not abstractable) -/
  real : Except String Conf
  /-- upstream blocks of the real http.conf: name ↦ `server` lines (both sorted) -/
  ups : List (String × List String)
  refsvcs : List String
  ct : Nat

inductive TStep
  | ev (e : EvIn)
  | cut (c : CutIn)
  | restart (state : Nat)

structure Report where
  events : Nat := 0
  verdicts : Nat := 0          -- events whose modelled verdict was compared with the real predicate's decision
  irrelevant : Nat := 0        -- … of which judged irrelevant by both
  cuts : Nat := 0
  confs : Nat := 0             -- drained points at which applied configuration + upstreams were compared with the real files
  rebuilds : Nat := 0
  diffs : List String := []    -- model ≠ implementation
  echo : List String := []     -- model applied ≠ model build of the current cluster (would contradict pipeline_config_converges)
  errors : List String := []

def sortS (l : List String) : List String := l.mergeSort fun a b => a ≤ b

/-- the `upstream` blocks of http.conf the model expects for `Configuration.Upstreams` (createUpstreams, OSS) -/
def blocksOf (ups : List NGF.Resolver.Up) : List (String × List String) :=
  let bs := (ups.map (NGF.Resolver.createUpstream false)) ++ [NGF.PipelineEndpoints.invalidBackendRefUpstream]
  (bs.map fun b => (b.name, sortS b.servers)).mergeSort fun a b => a.1 ≤ b.1

def showKey (k : Key) : String := k.1 ++ "/" ++ k.2

def refStrs (l : List Key) : List String := sortS ((l.map showKey).eraseDups)

def showKind : PKind → String
  | .gatewayClass => "GatewayClass" | .gateway => "Gateway" | .httpRoute => "HTTPRoute"
  | .service => "Service" | .referenceGrant => "ReferenceGrant" | .endpointSlice => "EndpointSlice"

/-- the mutation an observed event stands for: an upsert carries the object as it is in the cluster state the event was
reconciled from -/
def mutOf (states : Array PCl) (e : EvIn) : Except String PMut :=
  if e.del then .ok (.delete e.kind e.key)
  else match states[e.state]? with
    | none => .error s!"state {e.state} missing"
    | some c => match getObj c e.kind e.key with
      | some o => .ok (.upsert o)
      | none => .error s!"{showKind e.kind} {showKey e.key} not in decoded state {e.state} (outside the fragment view)"

def cap (l : List String) (s : String) : List String := if l.length < 6 then l ++ [s] else l

/-- replays the observed steps in the instantiated machine -/
def replay (front : Key) (states : Array PCl) :
    Sim PCl PBuilt → Nat → Bool → List TStep → Report → Report
  | _, _, _, [], r => r
  | σ, _, _, .restart st :: rest, r =>
      -- a (re)started controller lists the cluster: the model's cluster must be the real one
      replay front states (start (pBuild true) σ.world) st true rest r
  | σ, _, afterRestart, .ev e :: rest, r =>
      match mutOf states e with
      | .error msg => { r with errors := cap r.errors msg }
      | .ok m =>
        let ev := m.event
        let fwd := (pHandler front).forwards ev
        let v := verdict pOps pRel σ.proc.latest σ.proc.store ev
        let r := { r with events := r.events + 1 }
        let r := if fwd != e.fwd then
            { r with diffs := cap r.diffs s!"forwarded: {showKind e.kind} {showKey e.key} model {fwd} real {e.fwd}" } else r
        let r := if fwd && e.fwd then
            let r := { r with verdicts := r.verdicts + 1, irrelevant := r.irrelevant + (if !v && !e.changed then 1 else 0) }
            if v != e.changed then
              { r with diffs := cap r.diffs s!"relevance: {showKind e.kind} {showKey e.key} {if e.del then "delete" else "upsert"} model {v} real {e.changed}" }
            else r
          else r
        replay front states (stepH (pHandler front) pOps (pBuild true) pRel pWatch σ (.mutate ev)) e.state afterRestart rest r
  | σ, cur, afterRestart, .cut c :: rest, r =>
      let modelCt := σ.proc.ct.toNat
      let σ' := stepH (pHandler front) pOps (pBuild true) pRel pWatch σ .cut
      let r := { r with cuts := r.cuts + 1, rebuilds := r.rebuilds + (if modelCt != 0 then 1 else 0) }
      -- the first batch of a (re)started controller is the listing (always ClusterStateChange); `start` has done it
      let r := if !afterRestart && modelCt != c.ct then
          { r with diffs := cap r.diffs s!"Process: model change type {modelCt} real {c.ct}" } else r
      let r := match σ'.applied, c.hasFiles with
        | some b, true =>
          let r := { r with confs := r.confs + 1 }
          let r := match c.real with
            | .error msg => { r with errors := cap r.errors ("real configuration not abstractable: " ++ msg) }
            | .ok real => match NGF.PipelineTie.confDiff real b.conf with
              | none => r
              | some d => { r with diffs := cap r.diffs ("configuration: " ++ d) }
          let mb := blocksOf b.ups
          let r := if mb != c.ups then
              { r with diffs := cap r.diffs s!"upstream blocks: model {mb} real {c.ups}" } else r
          if refStrs b.referenced != c.refsvcs then
            { r with diffs := cap r.diffs s!"ReferencedServices: model {refStrs b.referenced} real {c.refsvcs}" } else r
        | _, _ => r
      -- echo of pipeline_config_converges: nothing pending ⇒ applied = build of the CURRENT cluster (as decoded)
      let r := match σ'.applied, states[cur]? with
        | some b, some w =>
          let fb := pBuild true w
          let r := match NGF.PipelineTie.confDiff b.conf fb.conf with
            | none => r
            | some d => { r with echo := cap r.echo ("configuration: " ++ d) }
          if blocksOf b.ups != blocksOf fb.ups then { r with echo := cap r.echo "upstreams" } else r
        | _, _ => r
      replay front states σ' cur false rest r

end NGF.StorePipelineTie
