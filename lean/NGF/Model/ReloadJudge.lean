/-
C12 — the property itself as a Bool judge over observations of the real code (core-only).
`judgeR`: one `ManagerImpl.Reload` against the simulated NGINX master.
`judgeH`: a batch sequence through the real `eventHandlerImpl` (with the real runtime manager
against the simulated master and the real file manager over a fault-injecting file layer): a batch
reported ok / Programmed=True / ready only if the on-disk set equals the generated set and the master
runs that version.
-/
import NGF.Model.HandlerVer

namespace NGF.C12
open NGF.Reload NGF.HandlerVer

/-- `Reload(n)` returned nil only if, at that instant, the simulated master had received the HUP,
its children file differed from the content before the HUP, and the last answer of its version
endpoint was exactly `n`. -/
def judgeR (n : Int) (retOk hup chg : Bool) (served : Option Int) : Option String :=
  if !retOk then none
  else if !hup then some "reload_ok_without_hup"
  else if !chg then some "reload_ok_without_new_workers"
  else if served != some n then some "reload_ok_wrong_version"
  else none

/-- observation of one `HandleEventBatch` of the real handler -/
structure Obs where
  ct      : ChangeType
  w       : Option Bool      -- ReplaceFiles result, if called
  rr      : Option Bool      -- Reload returned nil, if called
  api     : Option Bool      -- Plus API result, if consulted
  v       : Option Nat       -- version of the configuration built in this batch
  fv      : Option Nat       -- version found in the generated config-version.conf handed to ReplaceFiles
  rv      : Option Nat       -- version passed to Reload
  hup     : Bool             -- simulator: HUP received during this batch
  chg     : Bool             -- simulator: children differ from pre-HUP content
  served  : Option Int       -- simulator: last version answered during this batch
  run     : Bool             -- simulator: the workers run exactly the files now on disk
  full    : Option Bool      -- disk: the files on disk are exactly the generated set (if ReplaceFiles ran)
  vd      : Option Nat       -- disk: version in the version file on disk after the batch (none: no such file)
  st      : Bool             -- statuses were issued in this batch
  gw      : String           -- Programmed status of the Gateway in the issued status ("T","F","U","N" = absent)
  ls      : String           -- Programmed status per listener, one char each
  rt      : String           -- Accepted status per route parent, one char each
  sv      : String           -- Programmed status of the Gateway issued by the Service-upsert filter BEFORE the switch ("N": none)
  svl     : String           -- … and per listener
  ready   : Bool             -- readyCheck == nil after the batch
  closes  : Nat              -- 1 if readyCh is closed
  panic   : Bool

/-- the batch tried to apply a configuration and some step failed -/
def Obs.failed (o : Obs) : Bool :=
  o.ct != .noChange && (o.w == some false || o.rr == some false || o.api == some false)

def hasT (s : String) : Bool := s.toList.any (· == 'T')

/-- the batch did not go through `updateNginxConf` (no files, no reload) and yet issued statuses that
say Programmed / Accepted, or made the pod ready — while the newest configuration that had to be
loaded was NOT loaded (`stale`).  Known finding, see `plus_endpoints_only_resets_failed_reload`. -/
def Obs.staleSuccess (o : Obs) (stale readyBefore : Bool) : Bool :=
  stale && o.ct != .noChange && o.w.isNone &&
    ((o.st && (o.gw == "T" || hasT o.ls || hasT o.rt)) || (!readyBefore && o.ready))

/-- walk the batches; `lastV` = highest version seen, `readyBefore`, `failedBefore`, `stale` = the
newest batch that went through `updateNginxConf` did not get its configuration loaded,
`lastFailed` = the last batch that built a configuration failed (so the remembered result must say so:
it is what the Service-upsert filter re-issues Gateway statuses from, whatever batches that applied
nothing came in between). -/
def judgeHAux (plus : Bool) : List Obs → Option Nat → Bool → Bool → Bool → Bool → Option String
  | [], _, _, _, _, _ => none
  | o :: os, lastV, readyBefore, failedBefore, stale, lastFailed =>
    if o.panic then some "handler_panicked"
    else if lastFailed && (o.sv == "T" || hasT o.svl) then some "failure_forgotten_before_next_apply"
    else if o.closes > 1 then some "set_as_ready_once"
    else if o.ct != .noChange && o.v.isNone then some "no_version_for_applied_configuration"
    else if (match o.v, lastV with | some v, some l => decide (v ≤ l) | _, _ => false) then
      some "version_strictly_increasing"
    else if o.fv.isSome && o.fv != o.v then some "generated_file_carries_version"
    else if o.rv.isSome && o.rv != o.v then some "reload_version_is_configuration_version"
    else if o.rr == some true &&
        !(o.hup && o.chg && o.served == o.rv.map Int.ofNat) then
      some "reload_ok_runs_version"
    else if o.rr == some true && !o.run then some "reload_ok_runs_written_files"
    else if o.rr == some true && o.full == some false then some "reload_ok_partial_file_set"
    else if o.rr == some true && o.full.isSome && o.vd != o.rv then
      some "reload_ok_version_file_not_on_disk"
    else if o.full == some false && o.st && (o.gw == "T" || hasT o.ls || hasT o.rt) then
      some "programmed_with_partial_file_set"
    else if o.full == some false && !readyBefore && o.ready then some "ready_with_partial_file_set"
    else if o.ct != .noChange && !o.failed && (!plus || o.ct == .clusterState) && o.rr != some true then
      some "success_without_reload"
    else if o.failed && !(o.st && o.gw != "T" && !hasT o.ls && !hasT o.rt) then
      some "failure_surfaces"
    else if o.failed && !readyBefore && o.ready then some "failure_keeps_unready"
    else if o.staleSuccess stale readyBefore then some "stale_after_plus_endpoints_only_update"
    else if readyBefore && !o.ready then some "ready_latch"
    else if !readyBefore && o.ready &&
        !((o.ct != .noChange && !o.failed) || (o.ct == .noChange && !failedBefore)) then
      some "ready_only_after_success"
    else
      judgeHAux plus os (match o.v with | some v => some v | none => lastV) o.ready
        (failedBefore || o.failed)
        (if o.w.isSome then (o.w == some false || o.rr != some true) else stale)
        (if o.ct != .noChange then o.failed else lastFailed)

def judgeH (plus : Bool) (os : List Obs) : Option String :=
  judgeHAux plus os none false false false false

/-- Several controller processes one after the other against the same NGINX master (the NGF
container restarted): every process must satisfy `judgeH` on its own; a failure of the
"workers run the written files" clause in a later process is the version counter starting over. -/
def judgeP (plus : Bool) : List (List Obs) → Nat → Option String
  | [], _ => none
  | seg :: segs, idx =>
    match judgeH plus seg with
    | some c =>
      if idx > 0 && c == "reload_ok_runs_written_files" then
        some "version_reuse_after_controller_restart"
      else some c
    | none => judgeP plus segs (idx + 1)

end NGF.C12
