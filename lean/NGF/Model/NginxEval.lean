/-
What NGINX does with a request under a parsed configuration — the environment model of C02
(DESIGN.md §4 "NGINX", Appendix A.7). Trusted base: this file is what "what NGINX does" MEANS in the
C02 judge and theorems. It covers exactly the directives NGF emits for routing:

* `listen` (port / `[::]:port` / `unix:path`, flags `ssl`, `default_server`), `server_name`
  (exact, `*.suffix` wildcards — longest wins —, the catch-all regex `~^`), default server;
* `ssl_reject_handshake on`, the server-level `if ($ssl_server_name != $host) { return 421; }`;
* `location` selection (ngx_http_core_find_static_location): exact `= p` first, else the longest prefix
  location; `internal`; the auto-redirect (301) of a prefix location ending in `/` that has
  `proxy_pass`/`grpc_pass` when the request is that name without the slash;
* rewrite-phase directives in order: `rewrite` (the regex shapes NGF emits), `return`, `set`;
* content: `js_content httpmatches.redirect` (njs model below, `matches.json`), `proxy_pass` / `grpc_pass`
  to an upstream or to a `split_clients` variable; upstreams whose servers are unix sockets of `return N`
  servers resolve to that status (NGF's 500 / 503 helper servers);
* stream: `listen`, `ssl_preread`, `pass $var` / `proxy_pass`, `map $ssl_preread_server_name $v { hostnames; … }`.

Strings are `List Char` in everything that theorems talk about (`selectName`, `selectLoc`, `Njs.*`).
-/
import NGF.Model.NginxParse

namespace NGF.NginxEval
open NGF.Nginx

abbrev Str := List Char

/-! ### server_name selection (ngx_http_find_virtual_server) -/

def isWildName (n : Str) : Bool := n.take 2 == ['*', '.']

/-- `*.example.com` covers every host that ends in `.example.com` -/
def wildCovers (n host : Str) : Bool := isWildName n && (n.drop 1).isSuffixOf host

def catchAll : Str := ['~', '^']

/-- the longest wildcard name covering `host`; earlier names win ties -/
def bestWild (host : Str) : List Str → Option Str
  | [] => none
  | n :: ns =>
    match bestWild host ns with
    | none => if wildCovers n host then some n else none
    | some b => if wildCovers n host && b.length ≤ n.length then some n else some b

/-- NGINX's choice among the server names of one listen socket: exact name, else longest wildcard,
else the catch-all regex `~^` (the only regex name NGF emits), else none (default server). -/
def selectName (names : List Str) (host : Str) : Option Str :=
  if names.contains host && !isWildName host && host != catchAll then some host
  else match bestWild host names with
    | some w => some w
    | none => if names.contains catchAll then some catchAll else none

/-! ### location selection -/

structure Loc where
  exact : Bool
  path : Str
  internal : Bool := false
  /-- has proxy_pass/grpc_pass (sets `auto_redirect` when the name ends in `/`) -/
  passes : Bool := false
  body : List Dir := []

/-- longest prefix location (non-exact) that is a prefix of `p`; later ones win only if longer -/
def bestPrefix (p : Str) : List Loc → Option Loc
  | [] => none
  | l :: ls =>
    let ok := !l.exact && l.path.isPrefixOf p
    match bestPrefix p ls with
    | none => if ok then some l else none
    | some b => if ok && b.path.length ≤ l.path.length then some l else some b

inductive LocChoice
  | loc (l : Loc)
  | autoRedirect (l : Loc)   -- 301 to `path/`
  | none

/-- ngx_http_core_find_static_location restricted to exact and prefix locations. -/
def selectLoc (locs : List Loc) (p : Str) : LocChoice :=
  match locs.find? (fun l => l.exact && l.path == p) with
  | some l => .loc l
  | none =>
    match locs.find? (fun l => !l.exact && l.path == p) with
    | some l => .loc l
    | none =>
      match locs.find? (fun l => !l.exact && l.passes && l.path == p ++ ['/']) with
      | some l => .autoRedirect l
      | none =>
        match bestPrefix p locs with
        | some l => .loc l
        | none => .none

/-! ### njs httpmatches model -/
namespace Njs

structure Match where
  any : Bool := false
  method : Str := []               -- [] = no method condition
  headers : List Str := []         -- "name:value"
  params : List Str := []          -- "key=value"
  redirectPath : Str := []

structure Req where
  method : Str
  /-- header lines as received (name, value) -/
  headers : List (Str × Str)
  /-- query parameters in order (key, value), already percent-decoded -/
  args : List (Str × Str)

def lower (s : Str) : Str := s.map Char.toLower

/-- `r.headersIn[name]`: case-insensitive; several lines are joined with "," -/
def headerIn (hs : List (Str × Str)) (name : Str) : Option Str :=
  match (hs.filter fun h => lower h.1 == lower name).map (·.2) with
  | [] => none
  | v :: vs => some (vs.foldl (fun acc x => acc ++ [','] ++ x) v)

def splitOn (c : Char) : Str → List Str
  | [] => [[]]
  | x :: xs =>
    match splitOn c xs with
    | [] => [[]]   -- unreachable
    | h :: t => if x == c then [] :: h :: t else (x :: h) :: t

inductive Res
  | ok (b : Bool)
  | throw

/-- `headersMatch` -/
def headersMatch (hs : List (Str × Str)) : List Str → Res
  | [] => .ok true
  | h :: rest =>
    match splitOn ':' h with
    | [k, v] =>
      match headerIn hs k with
      | none => .ok false
      | some val =>
        if val.isEmpty then .ok false
        else if (splitOn ',' val).contains v then headersMatch hs rest else .ok false
    | _ => .throw

/-- `r.args[key]`: case-sensitive, first value of a repeated key -/
def argOf (args : List (Str × Str)) (k : Str) : Option Str := (args.find? (·.1 == k)).map (·.2)

def indexOfEq : Str → Nat → Option Nat
  | [], _ => none
  | c :: cs, i => if c == '=' then some i else indexOfEq cs (i + 1)

/-- `paramsMatch` -/
def paramsMatch (args : List (Str × Str)) : List Str → Res
  | [] => .ok true
  | p :: rest =>
    match indexOfEq p 0 with
    | none => .throw
    | some idx =>
      if idx == 0 || idx == p.length - 1 then .throw
      else
        let k := p.take idx
        let v := p.drop (idx + 1)
        match argOf args k with
        | none => .ok false
        | some val => if val.isEmpty then .ok false else if val == v then paramsMatch args rest else .ok false

/-- `testMatch` -/
def testMatch (r : Req) (m : Match) : Res :=
  if m.any then .ok true
  else if !m.method.isEmpty && r.method != m.method then .ok false
  else
    match (if m.headers.isEmpty then Res.ok true else headersMatch r.headers m.headers) with
    | .throw => .throw
    | .ok false => .ok false
    | .ok true => if m.params.isEmpty then .ok true else paramsMatch r.args m.params

inductive Win
  | found (m : Match)
  | notFound
  | error

/-- `findWinningMatch`: the first match of the list the request satisfies -/
def findWinning (r : Req) : List Match → Win
  | [] => .notFound
  | m :: ms =>
    match testMatch r m with
    | .throw => .error
    | .ok true => .found m
    | .ok false => findWinning r ms

end Njs

/-! ### outcome of a request -/

inductive Outcome
  | refused                                   -- nothing listens on the port
  | closed                                    -- TLS handshake rejected / stream connection closed
  | status (code : Nat)
  | redirect (code : Nat) (url : String)
  /-- `proto` http|https|grpc|grpcs; `dist`: target → hundredths of a percent, where a target is an
  upstream name or `!<code>` (the share answered with that status); `uri` sent upstream -/
  | proxy (proto : String) (dist : List (String × Nat)) (uri : String)
  | passthrough (upstream : String)
  | confError (msg : String)                  -- outside the modelled fragment / not loadable
  deriving Repr, BEq, Inhabited

/-! ### configuration access -/

def s (x : Str) : String := String.ofList x

def Dir.nameS (d : Dir) : String := String.ofList d.name
def Dir.argS (d : Dir) : List String := d.args.map fun a => String.ofList a.1

def findDirs (name : String) (ds : List Dir) : List Dir := ds.filter fun d => Dir.nameS d == name

structure Server where
  listens : List (List String)
  names : List Str
  body : List Dir

def mkServer (d : Dir) : Server :=
  let body := (d.block.getD [])
  { listens := (findDirs "listen" body).map Dir.argS
    names := (findDirs "server_name" body).flatMap fun x => x.args.map (·.1)
    body := body }

def serversOf (ds : List Dir) : List Server := (findDirs "server" ds).map mkServer

/-- servers listening on `key` ("80", "unix:/path") with the flags of that listen -/
def listening (key : String) (srvs : List Server) : List (Server × List String) :=
  srvs.filterMap fun sv =>
    match sv.listens.find? (fun l => l.head? == some key) with
    | some l => some (sv, l.drop 1)
    | none => none

structure Request where
  port : Nat
  tls : Bool
  sni : String := ""           -- "" = no SNI
  host : String := ""
  path : String := "/"
  method : String := "GET"
  headers : List (String × String) := []
  query : List (String × String) := []
  deriving Repr, Inhabited

def Request.rawQuery (r : Request) : String :=
  "&".intercalate (r.query.map fun kv => kv.1 ++ "=" ++ kv.2)

def Request.requestURI (r : Request) : String :=
  if r.query.isEmpty then r.path else r.path ++ "?" ++ r.rawQuery

structure Config where
  http : List Dir
  stream : List Dir
  /-- matches.json: key → list of matches; `none` entry = value was not a list of objects -/
  matchTab : List (String × Option (List Njs.Match))

/-- virtual server for `host` among the servers of one listen socket -/
def pickServer (cands : List (Server × List String)) (host : String) : Option Server :=
  match cands with
  | [] => none
  | first :: _ =>
    let names := cands.flatMap fun c => c.1.names
    match selectName names host.toList with
    | some n => (cands.find? fun c => c.1.names.contains n).map (·.1)
    | none =>
      match cands.find? (fun c => c.2.contains "default_server") with
      | some c => some c.1
      | none => some first.1

/-- the default server of a listen socket: the one flagged `default_server`, else the first -/
def defaultServer (cands : List (Server × List String)) : Option Server :=
  match cands.find? (fun c => c.2.contains "default_server") with
  | some c => some c.1
  | none => cands.head?.map (·.1)

def hasOn (body : List Dir) (name : String) : Bool :=
  (findDirs name body).any fun d => Dir.argS d == ["on"]

/-! ### variables and small parsers -/

def isVarChar (c : Char) : Bool := c.isAlphanum || c == '_'

structure VarEnv where
  vars : List (String × String)

def VarEnv.get (e : VarEnv) (k : String) : Option String := e.vars.lookup k

/-- expand `$name` / `${name}` in a directive argument; unknown variable → none -/
def expand (e : VarEnv) : Nat → Str → Option Str
  | 0, _ => none
  | _, [] => some []
  | fuel + 1, '$' :: '{' :: rest =>
    let name := rest.takeWhile (· != '}')
    let after := (rest.dropWhile (· != '}')).drop 1
    match e.get (String.ofList name), expand e fuel after with
    | some v, some r => some (v.toList ++ r)
    | _, _ => none
  | fuel + 1, '$' :: rest =>
    let name := rest.takeWhile isVarChar
    let after := rest.dropWhile isVarChar
    match e.get (String.ofList name), expand e fuel after with
    | some v, some r => some (v.toList ++ r)
    | _, _ => none
  | fuel + 1, c :: rest => (expand e fuel rest).map (c :: ·)

def expandS (e : VarEnv) (x : String) : Option String := (expand e (x.length + 1) x.toList).map String.ofList

/-- "12.34%" → 1234 hundredths; nginx accepts at most two decimals and no sign -/
def parsePercent (x : String) : Option Nat :=
  let cs := x.toList
  match cs.getLast? with
  | some '%' =>
    let body := cs.dropLast
    let ip := body.takeWhile (· != '.')
    let fp := (body.dropWhile (· != '.')).drop 1
    if ip.isEmpty || !ip.all Char.isDigit || !fp.all Char.isDigit || fp.length > 2 then none
    else if body.contains '.' && fp.isEmpty then none
    else
      let i := (String.ofList ip).toNat!
      let f := if fp.isEmpty then 0 else if fp.length == 1 then (String.ofList fp).toNat! * 10 else (String.ofList fp).toNat!
      some (i * 100 + f)
  | _ => none

/-- `split_clients $request_id $var { p% value; … }` → var ↦ distribution (value, hundredths);
the unassigned remainder maps to the empty value -/
def splitClients (http : List Dir) : List (String × Option (List (String × Nat))) :=
  (findDirs "split_clients" http).filterMap fun d =>
    match Dir.argS d with
    | [_, v] =>
      let entries := (d.block.getD []).map fun e =>
        match Dir.argS e with
        | [val] => if Dir.nameS e == "*" then some (val, none) else (parsePercent (Dir.nameS e)).map fun p => (val, some p)
        | _ => none
      if entries.all Option.isSome then
        let es : List (String × Option Nat) := entries.filterMap id
        let used : Nat := es.foldl (fun acc x => acc + x.2.getD 0) 0
        if used > 10000 then some ((v.drop 1).toString, none)
        else
          let rest := 10000 - used
          let hasStar := es.any fun x => x.2.isNone
          let ds := es.map fun x => (x.1, x.2.getD rest)
          some ((v.drop 1).toString, some (if hasStar || rest == 0 then ds else ds ++ [("", rest)]))
      else some ((v.drop 1).toString, none)
    | _ => none

/-- merge equal targets, drop zero shares, sort by name -/
def normDist (d : List (String × Nat)) : List (String × Nat) :=
  let keys := (d.map (·.1)).eraseDups
  let merged := keys.map fun k => (k, (d.filter (·.1 == k)).foldl (fun a x => a + x.2) 0)
  (merged.filter (·.2 != 0)).mergeSort fun a b => a.1 ≤ b.1

/-- the `return N` of the server listening on a unix socket, if that is all it does -/
def unixServerStatus (srvs : List Server) (sock : String) : Option Nat :=
  match listening sock srvs with
  | (sv, _) :: _ =>
    match (findDirs "return" sv.body).head? with
    | some d => (Dir.argS d).head? >>= String.toNat?
    | none => none
  | [] => none

/-- an upstream name resolves to itself when it has a real server, to `!code` when all its servers are
unix sockets of `return code` servers, to `!502` when it has no server, to none when undefined -/
def resolveUpstream (http : List Dir) (srvs : List Server) (name : String) : Option String :=
  match (findDirs "upstream" http).find? (fun d => Dir.argS d == [name]) with
  | none => none
  | some u =>
    let servers := (findDirs "server" (u.block.getD [])).filterMap fun d => (Dir.argS d).head?
    if servers.isEmpty then some "!502"
    else if servers.all (·.startsWith "unix:") then
      match servers.filterMap (unixServerStatus srvs) with
      | c :: _ => some ("!" ++ toString c)
      | [] => some name
    else some name

/-! ### evaluation of one http request inside a chosen server -/

structure St where
  uri : String
  args : String
  matchKey : Option String := none

def mkEnv (rq : Request) (st : St) : VarEnv :=
  { vars := [("host", rq.host), ("scheme", if rq.tls then "https" else "http"),
             ("request_uri", rq.requestURI), ("uri", st.uri), ("args", st.args),
             ("is_args", if st.args.isEmpty then "" else "?"), ("ssl_server_name", rq.sni),
             ("server_port", toString rq.port)] }

/-- the two regex shapes NGF emits in `rewrite`: `^` and `^<literal>([^?]*)?` / `^<literal>(?:/([^?]*))?`.
Returns the captured `$1` if the regex matches `uri`. A literal containing regex metacharacters is
outside the model. -/
def rewriteMatch (regex uri : Str) : Option (Option Str) :=
  let isMeta := fun (c : Char) => "()[]{}*+?|\\^$.".toList.contains c
  match regex with
  | ['^'] => some (some [])
  | '^' :: rest =>
    let suf1 := "([^?]*)?".toList
    let suf2 := "(?:/([^?]*))?".toList
    if suf2.isSuffixOf rest then
      let lit := rest.take (rest.length - suf2.length)
      if lit.any isMeta then none
      else if lit.isPrefixOf uri then
        let after := uri.drop lit.length
        match after with
        | '/' :: more => some (some (more.takeWhile (· != '?')))
        | _ => some (some [])
      else some none
    else if suf1.isSuffixOf rest then
      let lit := rest.take (rest.length - suf1.length)
      if lit.any isMeta then none
      else if lit.isPrefixOf uri then some (some ((uri.drop lit.length).takeWhile (· != '?')))
      else some none
    else none
  | _ => none

inductive Step
  | continue (st : St)
  | stopRewrites (st : St)     -- `break`
  | done (o : Outcome)

def applyRewrite (rq : Request) (st : St) (args : List String) : Step :=
  match args with
  | regex :: repl :: flags =>
    match rewriteMatch regex.toList st.uri.toList with
    | none => .done (.confError ("unsupported rewrite regex " ++ regex))
    | some none => .continue st
    | some (some cap) =>
      let env : VarEnv := { vars := ("1", String.ofList cap) :: (mkEnv rq st).vars }
      -- a literal '?' in the replacement separates new args; a trailing '?' suppresses re-appending old args
      let rl := repl.toList
      let upath := rl.takeWhile (· != '?')
      let hasQ := rl.contains '?'
      let qpart := (rl.dropWhile (· != '?')).drop 1
      let noAppend := qpart.getLast? == some '?'
      let qpart := if noAppend then qpart.dropLast else qpart
      match expand env (rl.length + 1) upath, expand env (rl.length + 1) qpart with
      | some u, some q =>
        let newArgs :=
          if !hasQ then st.args
          else if noAppend || st.args.isEmpty then String.ofList q
          else if q.isEmpty then st.args else String.ofList q ++ "&" ++ st.args
        let st' := { st with uri := String.ofList u, args := newArgs }
        if flags.contains "break" then .stopRewrites st'
        else if flags.isEmpty then .continue st'
        else .done (.confError "unsupported rewrite flag")
      | _, _ => .done (.confError "unknown variable in rewrite")
  | _ => .done (.confError "rewrite arity")

def isRedirectCode (c : Nat) : Bool := c == 301 || c == 302 || c == 303 || c == 307 || c == 308

/-- rewrite phase of a location/server body: `rewrite`, `return`, `set` in order -/
def rewritePhase (rq : Request) : List Dir → St → Bool → Step
  | [], st, _ => .continue st
  | d :: ds, st, stopped =>
    let name := Dir.nameS d
    if name == "rewrite" then
      if stopped then rewritePhase rq ds st stopped
      else match applyRewrite rq st (Dir.argS d) with
        | .continue st' => rewritePhase rq ds st' false
        | .stopRewrites st' => .stopRewrites st'   -- `break` ends the rewrite module's processing here
        | .done o => .done o
    else if name == "return" then
      if stopped then rewritePhase rq ds st stopped
      else match Dir.argS d with
        | [c] => match c.toNat? with
          | some n => .done (.status n)
          | none => .done (.confError "return code")
        | [c, text] =>
          match c.toNat? with
          | some n =>
            if isRedirectCode n then
              match expandS (mkEnv rq st) text with
              | some u => .done (.redirect n u)
              | none => .done (.confError "unknown variable in return")
            else .done (.status n)
          | none => .done (.confError "return code")
        | _ => .done (.confError "return arity")
    else if name == "set" then
      match Dir.argS d with
      | [v, val] => if v == "$match_key" then rewritePhase rq ds { st with matchKey := some val } stopped
                    else rewritePhase rq ds st stopped
      | _ => .done (.confError "set arity")
    else rewritePhase rq ds st stopped

def locsOf (body : List Dir) : Except String (List Loc) :=
  (findDirs "location" body).mapM fun d =>
    let b := d.block.getD []
    let mk (exact : Bool) (p : String) : Loc :=
      { exact := exact, path := p.toList, internal := !(findDirs "internal" b).isEmpty,
        passes := !(findDirs "proxy_pass" b).isEmpty || !(findDirs "grpc_pass" b).isEmpty, body := b }
    match Dir.argS d with
    | [p] => if p.startsWith "@" || p.startsWith "~" || p.startsWith "^~" then .error "unsupported location kind" else .ok (mk false p)
    | ["=", p] => .ok (mk true p)
    | _ => .error "unsupported location modifier"

/-- split `scheme://target<uri>` -/
def parsePass (x : String) : Option (String × String × String) :=
  match x.splitOn "://" with
  | [scheme, rest] =>
    let rl := rest.toList
    if rl.head? == some '$' then
      let v := (rl.drop 1).takeWhile isVarChar
      some (scheme, "$" ++ String.ofList v, String.ofList ((rl.drop 1).dropWhile isVarChar))
    else
      let t := rl.takeWhile fun c => c != '$' && c != '/'
      some (scheme, String.ofList t, String.ofList (rl.dropWhile fun c => c != '$' && c != '/'))
  | _ => none

def evalPass (cfg : Config) (srvs : List Server) (rq : Request) (st : St) (arg : String) : Outcome :=
  match parsePass arg with
  | none => .confError "proxy_pass syntax"
  | some (scheme, target, uriPart) =>
    let upstreamURI : Option String :=
      if uriPart.isEmpty then some (if st.args.isEmpty then st.uri else st.uri ++ "?" ++ st.args)
      else expandS (mkEnv rq st) uriPart
    match upstreamURI with
    | none => .confError "unknown variable in proxy_pass"
    | some uu =>
      let dist : Option (List (String × Nat)) :=
        if target.startsWith "$" then
          match (splitClients cfg.http).lookup (target.drop 1).toString with
          | some (some d) => some d
          | _ => none
        else some [(target, 10000)]
      match dist with
      | none => .confError ("variable " ++ target ++ " is not a loadable split_clients variable")
      | some d =>
        let resolved := d.map fun (t, w) =>
          if t.isEmpty then (some "!500", w) else (resolveUpstream cfg.http srvs t, w)
        if resolved.any (·.1.isNone) then .confError "proxy_pass to an undefined upstream"
        else .proxy scheme (normDist (resolved.map fun x => (x.1.getD "", x.2))) uu

def toNjsReq (rq : Request) : Njs.Req :=
  { method := rq.method.toList, headers := rq.headers.map fun h => (h.1.toList, h.2.toList),
    args := rq.query.map fun q => (q.1.toList, q.2.toList) }

/-- evaluate a request that has reached `srv` (server already chosen); `fuel` bounds internal redirects -/
def evalInServer (cfg : Config) (srvs : List Server) (srv : Server) (rq : Request) :
    Nat → St → Bool → Outcome
  | 0, _, _ => .confError "internal redirect loop"
  | fuel + 1, st, isInternal =>
    match locsOf srv.body with
    | .error e => .confError e
    | .ok locs =>
      match selectLoc locs st.uri.toList with
      | .none => .status 404                         -- static handler, nothing to serve
      | .autoRedirect _ => .status 301
      | .loc l =>
        if l.internal && !isInternal then .status 404
        else
          let content (st : St) : Outcome :=
            if !(findDirs "js_content" l.body).isEmpty then
              match st.matchKey with
              | none => .status 500
              | some key =>
                match cfg.matchTab.lookup key with
                | none => .status 500
                | some none => .status 500
                | some (some []) => .status 500
                | some (some ms) =>
                  match Njs.findWinning (toNjsReq rq) ms with
                  | .error => .status 500
                  | .notFound => .status 404
                  | .found m =>
                    if m.redirectPath.isEmpty then .status 500
                    else evalInServer cfg srvs srv rq fuel { uri := String.ofList m.redirectPath, args := rq.rawQuery } true
            else
              match (findDirs "proxy_pass" l.body ++ findDirs "grpc_pass" l.body).head? with
              | some d =>
                match Dir.argS d with
                | [a] => evalPass cfg srvs rq st a
                | _ => .confError "proxy_pass arity"
              | none => .status 404
          match rewritePhase rq l.body { st with matchKey := none } false with
          | .done o => o
          | .continue st' => content st'
          | .stopRewrites st' =>
            -- `break`: remaining rewrite-module directives of the location are skipped, but `set` has run
            -- only if it preceded; NGF puts `set $match_key` only in locations without rewrites
            content st'

def serverIf421 (srv : Server) (rq : Request) : Except String Bool :=
  match findDirs "if" srv.body with
  | [] => .ok false
  | [d] =>
    if Dir.argS d == ["($ssl_server_name", "!=", "$host)"] &&
        ((d.block.getD []).map fun x => (Dir.nameS x, Dir.argS x)) == [("return", ["421"])] then
      .ok (rq.sni != rq.host)
    else .error "unsupported if"
  | _ => .error "unsupported if"

/-- HTTP(S) request on a listen socket `key` -/
def evalHTTP (cfg : Config) (key : String) (rq : Request) : Outcome :=
  let srvs := serversOf cfg.http
  let cands := listening key srvs
  if cands.isEmpty then .refused
  else
    let sslSock := cands.any fun c => c.2.contains "ssl"
    if sslSock != rq.tls then .status 400
    else
      -- TLS handshake: the server chosen by SNI may reject it
      let handshakeOK : Bool :=
        if !rq.tls then true
        -- without SNI the handshake is done by the default server of the socket
        else match (if rq.sni.isEmpty then defaultServer cands else pickServer cands rq.sni) with
          | some sv => !hasOn sv.body "ssl_reject_handshake"
          | none => false
      if !handshakeOK then .closed
      else match pickServer cands rq.host with
        | none => .refused
        | some srv =>
          match serverIf421 srv rq with
          | .error e => .confError e
          | .ok true => .status 421
          | .ok false =>
            let st : St := { uri := rq.path, args := rq.rawQuery }
            -- server-level `return`
            match (findDirs "return" srv.body).head? with
            | some d =>
              match (Dir.argS d).head? >>= String.toNat? with
              | some n => .status n
              | none => .confError "return code"
            | none => evalInServer cfg srvs srv rq 4 st false

/-! ### stream (TLS passthrough) -/

/-- `map … { hostnames; … }` lookup: exact, then longest `*.x` / `.x` mask, then the regex `~^`, then `default` -/
def mapHostnames (entries : List (String × String)) (name : String) : Option String :=
  let n := name.toList
  match entries.find? (fun e => e.1 == name && e.1 != "default") with
  | some e => some e.2
  | none =>
    let masks := entries.filterMap fun e =>
      let k := e.1.toList
      if k.take 2 == ['*', '.'] && (k.drop 1).isSuffixOf n then some ((k.drop 1).length, e.2)
      else if k.head? == some '.' && (k.isSuffixOf n || k.drop 1 == n) then some (k.length, e.2)
      else none
    match masks.foldl (fun (acc : Option (Nat × String)) m =>
        match acc with
        | none => some m
        | some a => if a.1 < m.1 then some m else some a) none with
    | some m => some m.2
    | none =>
      -- regular expressions in order of appearance; NGF emits only the catch-all `~^`
      match entries.find? (·.1 == "~^") with
      | some e => some e.2
      | none => (entries.find? (·.1 == "default")).map (·.2)

/-- a TLS connection to `port` with SNI `sni`, before any HTTP: stream servers first -/
def evalRequest (cfg : Config) (rq : Request) : Outcome :=
  let key := toString rq.port
  let ssrvs := serversOf cfg.stream
  match listening key ssrvs with
  | [] => evalHTTP cfg key rq
  | (sv, _) :: _ =>
    if !rq.tls then .closed    -- plaintext into ssl_preread: no server name; treated like no SNI below
    else
      match (findDirs "pass" sv.body).head? with
      | none =>
        match (findDirs "proxy_pass" sv.body).head? with
        | some d => .passthrough ((Dir.argS d).headD "")
        | none => .confError "stream server without pass"
      | some d =>
        match Dir.argS d with
        | [v] =>
          let maps := findDirs "map" cfg.stream
          match maps.find? (fun m => (Dir.argS m).drop 1 == [v]) with
          | none => .confError "stream pass variable undefined"
          | some m =>
            let entries := (m.block.getD []).filterMap fun e =>
              if Dir.nameS e == "hostnames" then none else some (Dir.nameS e, (Dir.argS e).headD "")
            match mapHostnames entries rq.sni with
            | none => .closed
            | some "" => .closed       -- `pass ""`: no host in pass → connection closed, $status 500
            | some sock =>
              match listening sock ssrvs with
              | (t, _) :: _ =>
                match (findDirs "proxy_pass" t.body).head? with
                | some pd => .passthrough ((Dir.argS pd).headD "")
                | none => .closed      -- `return "";` server
              | [] => evalHTTP cfg sock rq
        | _ => .confError "pass arity"

end NGF.NginxEval
