import NGF.Model.SplitClients
import NGF.Model.SplitClientsJudge
import NGF.Model.Proto
/-
Driver entry for C15. Lines are TAB separated `key=value` fields.
  model line : ns= name= idx= w=<w,..> v=<1|0,..> ups=<u,..>
  output     : block=<split_clients block, "\n" as "|", "-" if none>\tpp=<proxy_pass argument>\trange=<0|1>
  judge line : w= v= ups= block= pp= inv500=
  output     : `ok strict=<0|1> deficit=<n>` | `fail <clause> <clause> …`
  repaired line : w=<w,..>    output: cents of the REPAIRED variant `c,c,…`
-/
namespace NGF.C15Driver
open NGF.Proto NGF.SplitClients NGF.F64

def tfield (fs : List String) (k : String) : Option String :=
  fs.findSome? fun f =>
    if f.startsWith (k ++ "=") then some ((f.drop (k.length + 1)).toString) else none

def parseStrList (s : String) : List String := if s == "-" then [] else s.splitOn ","

def parseBools (s : String) : Option (List Bool) :=
  (parseStrList s).mapM fun x => if x == "1" then some true else if x == "0" then some false else none

def mkBackends : List Nat → List Bool → List String → List Backend
  | w :: ws, v :: vs, u :: us => ⟨u, w, v⟩ :: mkBackends ws vs us
  | _, _, _ => []

/-- `convertStringToSafeVariableName` -/
def safeVar (s : String) : String := s.replace "-" "_"

/-- `BackendGroup.Name()` -/
def groupName (ns name : String) (idx : Nat) : String := s!"group_{ns}__{name}_rule{idx}"

/-- every rounding the float computation performs stays in the normal binary64 range -/
def rangeOK (T : Nat) (ws : List Nat) : Bool :=
  let vals := shareVals T (ofNat 100) ws
  vals.all inRange && ws.all fun w =>
    let p := fdiv (fmul (ofNat w) 100) (ofNat T)
    inRange p && inRange (fmul p 100) && inRange (((w : Rat) * 100) / (T : Rat))

def modelLine (line : String) : String :=
  let fs := line.splitOn "\t"
  match tfield fs "ns", tfield fs "name", tfield fs "idx" >>= String.toNat?,
        tfield fs "w" >>= parseNatList, tfield fs "v" >>= parseBools, tfield fs "ups" with
  | some ns, some name, some idx, some ws, some vs, some ups =>
    let us := parseStrList ups
    if ws.length != vs.length || ws.length != us.length then "bad-op" else
    let bs := mkBackends ws vs us
    let gname := groupName ns name idx
    let blk := match distributions bs with
      | none => "-"
      | some ds => (block (safeVar gname) ds).replace "\n" "|"
    -- createProxyPass(backendGroup, nil filter, "http", grpc=false)
    let bname := backendGroupName gname bs
    let pp := if bs.length > 1 then "http://$" ++ safeVar bname ++ "$request_uri"
              else "http://" ++ bname ++ "$request_uri"
    let rg := if total bs = 0 then true else rangeOK (total bs) ws
    s!"block={blk}\tpp={pp}\trange={if rg then 1 else 0}"
  | _, _, _, _, _, _ => "bad-op"

def judgeLine (line : String) : String :=
  let fs := line.splitOn "\t"
  match tfield fs "w" >>= parseNatList, tfield fs "v" >>= parseBools, tfield fs "ups",
        tfield fs "block", tfield fs "pp", tfield fs "inv500" with
  | some ws, some vs, some ups, some blk, some pp, some inv =>
    let us := parseStrList ups
    if ws.length != vs.length || ws.length != us.length || ws.length < 2 then "bad-op" else
    match SplitClientsJudge.judge ws vs us blk pp (inv == "1") with
    | [] =>
      let st := SplitClientsJudge.strictWithin ws blk
      s!"ok strict={if st then 1 else 0} deficit={SplitClientsJudge.floatDeficit ws blk}"
    | cs => "fail " ++ " ".intercalate cs
  | _, _, _, _, _, _ => "bad-op"

def repairedLine (line : String) : String :=
  let fs := line.splitOn "\t"
  match tfield fs "w" >>= parseNatList with
  | some ws => showNatList (repairedCents ws)
  | none => "bad-op"

def driver (args : List String) : IO UInt32 := do
  let stdin ← IO.getStdin
  let stdout ← IO.getStdout
  match args with
  | ["model"] => forEachLine stdin fun l => stdout.putStrLn (modelLine l)
  | ["judge"] => forEachLine stdin fun l => stdout.putStrLn (judgeLine l)
  | ["repaired"] => forEachLine stdin fun l => stdout.putStrLn (repairedLine l)
  | _ => IO.eprintln "usage: C15 model|judge|repaired"; return 2
  return 0

end NGF.C15Driver

/-- executable entry point: `ngfdriver_C15 model|judge|repaired` -/
def main (args : List String) : IO UInt32 := NGF.C15Driver.driver args
