import NGF.Model.SplitClients
import NGF.Model.SplitClientsJudge
import NGF.Model.Proto
/-
Driver entry for C15. Lines are TAB separated `key=value` fields.
  model line : ns= name= idx= w=<w,..> v=<1|0,..> ups=<u,..>
  output     : block=<split_clients block, "\n" as "|", "-" if none>\tpp=<proxy_pass argument>
  prefix line: as model line; output: the same for the PRE-FIX float64 algorithm, plus range=<0|1>
  judge line : w= v= ups= block= pp= inv500=
  output     : `ok strict=<0|1> deficit=<n> positional=<0|1>` | `fail <clause> <clause> …`
-/
namespace NGF.C15Driver
open NGF.Proto NGF.SplitClients NGF.F64

def tfield (fs : List String) (k : String) : Option String :=
  fs.findSome? fun f =>
    if f.startsWith (k ++ "=") then some ((f.drop (k.length + 1)).toString) else none

def parseStrList (s : String) : List String := if s == "-" then [] else s.splitOn ","

def parseBools (s : String) : Option (List Bool) :=
  (parseStrList s).mapM fun x => if x == "1" then some true else if x == "0" then some false else none

def mkBackends : List Nat → List Bool → List String → List Backend
  | w :: ws, v :: vs, u :: us => ⟨u, w, v⟩ :: mkBackends ws vs us
  | _, _, _ => []

/-- `convertStringToSafeVariableName` -/
def safeVar (s : String) : String := s.replace "-" "_"

/-- `BackendGroup.Name()` -/
def groupName (ns name : String) (idx : Nat) : String := s!"group_{ns}__{name}_rule{idx}"

/-- every rounding the float computation performs stays in the normal binary64 range -/
def rangeOK (T : Nat) (ws : List Nat) : Bool :=
  let vals := shareVals T (ofNat 100) ws
  vals.all inRange && ws.all fun w =>
    let p := fdiv (fmul (ofNat w) 100) (ofNat T)
    inRange p && inRange (fmul p 100) && inRange (((w : Rat) * 100) / (T : Rat))

/-- `float = false`: the integer algorithm of the current code; `float = true`: the pre-fix float64 algorithm -/
def modelLine (float : Bool) (line : String) : String :=
  let fs := line.splitOn "\t"
  match tfield fs "ns", tfield fs "name", tfield fs "idx" >>= String.toNat?,
        tfield fs "w" >>= parseNatList, tfield fs "v" >>= parseBools, tfield fs "ups" with
  | some ns, some name, some idx, some ws, some vs, some ups =>
    let us := parseStrList ups
    if ws.length != vs.length || ws.length != us.length then "bad-op" else
    let bs := mkBackends ws vs us
    let gname := groupName ns name idx
    let blk := match (if float then floatDistributions bs else distributions bs) with
      | none => "-"
      | some ds => (block (safeVar gname) ds).replace "\n" "|"
    -- createProxyPass(backendGroup, nil filter, "http", grpc=false)
    let bname := backendGroupName gname bs
    let pp := if bs.length > 1 then "http://$" ++ safeVar bname ++ "$request_uri"
              else "http://" ++ bname ++ "$request_uri"
    if float then
      let rg := if total bs = 0 then true else rangeOK (total bs) ws
      s!"block={blk}\tpp={pp}\trange={if rg then 1 else 0}"
    else s!"block={blk}\tpp={pp}"
  | _, _, _, _, _, _ => "bad-op"

def judgeLine (line : String) : String :=
  let fs := line.splitOn "\t"
  match tfield fs "w" >>= parseNatList, tfield fs "v" >>= parseBools, tfield fs "ups",
        tfield fs "block", tfield fs "pp", tfield fs "inv500" with
  | some ws, some vs, some ups, some blk, some pp, some inv =>
    let us := parseStrList ups
    if ws.length != vs.length || ws.length != us.length || ws.length < 2 then "bad-op" else
    match SplitClientsJudge.judge ws vs us blk pp (inv == "1") with
    | [] =>
      let st := SplitClientsJudge.strictWithin ws blk
      let po := SplitClientsJudge.positional ws blk
      s!"ok strict={if st then 1 else 0} deficit={SplitClientsJudge.floatDeficit ws blk} positional={if po then 1 else 0}"
    | cs => "fail " ++ " ".intercalate cs
  | _, _, _, _, _, _ => "bad-op"

/-- weight line: `in=<nil|int>` -> model `out=<int>`; judge on `in= out=`: what reaches the generator is in
[0, 10^6], an in-range weight is kept, an absent one is 1 -/
def parseInt? (s : String) : Option Int :=
  if s.startsWith "-" then (s.drop 1).toString.toNat?.map (fun n => -(n : Int)) else s.toNat?.map (fun n => (n : Int))

def weightModelLine (line : String) : String :=
  let fs := line.splitOn "\t"
  match tfield fs "in" with
  | some "nil" => s!"out={effectiveWeight none}"
  | some x => match parseInt? x with
    | some w => s!"out={effectiveWeight (some w)}"
    | none => "bad-op"
  | none => "bad-op"

def weightJudgeLine (line : String) : String :=
  let fs := line.splitOn "\t"
  match tfield fs "in", tfield fs "out" >>= parseInt? with
  | some i, some o =>
    if o < 0 || o > 1000000 then "fail weight_out_of_range"
    else if i == "nil" then (if o == 1 then "ok" else "fail default_weight_not_1")
    else match parseInt? i with
      | some w => if 0 ≤ w && w ≤ 1000000 && o != w then "fail weight_not_kept"
                  else if (w < 0 || w > 1000000) && o != 0 then "fail invalid_weight_gets_traffic" else "ok"
      | none => "bad-op"
  | _, _ => "bad-op"

/-! ### end-to-end stream: spec of a route rule -> graph refs -> backend group -> block -/

def parseOptInts (s : String) : Option (List (Option Int)) :=
  (parseStrList s).mapM fun x => if x == "nil" then some none else (parseInt? x).map some

def untilde (s : String) : String := if s == "~" then "" else s
def tilde (s : String) : String := if s == "" then "~" else s
def showList (l : List String) : String := if l.isEmpty then "-" else ",".intercalate l

def mkSpec : List (Option Int) → List Bool → List String → List SpecRef
  | w :: ws, v :: vs, u :: us => ⟨w, v, untilde u⟩ :: mkSpec ws vs us
  | _, _, _ => []

/-- E line (fields kind ns name idx sw sv su) -> what the model predicts for every stage -/
def e2eModelLine (line : String) : String :=
  let fs := line.splitOn "\t"
  match tfield fs "kind", tfield fs "ns", tfield fs "name", tfield fs "idx" >>= String.toNat?,
        tfield fs "sw" >>= parseOptInts, tfield fs "sv" >>= parseBools, tfield fs "su" with
  | some kind, some ns, some name, some idx, some sw, some sv, some su =>
    let us := parseStrList su
    if sw.length != sv.length || sw.length != us.length then "bad-op" else
    let spec := mkSpec sw sv us
    let grefs := spec.map createBackendRef
    let bs := newBackendGroup grefs
    let gname := groupName ns name idx
    let blk := match distributions bs with
      | none => "-"
      | some ds => (block (safeVar gname) ds).replace "\n" "|"
    let bname := backendGroupName gname bs
    let target := if bs.length > 1 then "$" ++ safeVar bname else bname
    let pp := if kind == "grpc" then "grpc://" ++ target else "http://" ++ target ++ "$request_uri"
    "gw=" ++ showList (grefs.map fun g => toString g.weight) ++
    "\tgv=" ++ showList (grefs.map fun g => if g.valid then "1" else "0") ++
    "\tgu=" ++ showList (grefs.map fun g => tilde g.servicePortReference) ++
    "\tbw=" ++ showList (bs.map fun b => toString b.weight) ++
    "\tbv=" ++ showList (bs.map fun b => if b.valid then "1" else "0") ++
    "\tbu=" ++ showList (bs.map fun b => tilde b.upstream) ++
    "\tblock=" ++ blk ++ "\tpp=" ++ pp
  | _, _, _, _, _, _, _ => "bad-op"

/-- E line -> the property judged from the SPEC: the k-th distribution line belongs to the k-th backendRef, whose
weight is `spec.weight` (1 if unset), which keeps its share whether or not it resolves, and which answers 500
(invalid-backend-ref) iff it does not resolve -/
def e2eJudgeLine (line : String) : String :=
  let fs := line.splitOn "\t"
  match tfield fs "kind", tfield fs "sw" >>= parseOptInts, tfield fs "sv" >>= parseBools, tfield fs "su",
        tfield fs "block", tfield fs "pp", tfield fs "inv500" with
  | some kind, some sw, some sv, some su, some blk, some pp, some inv =>
    let us := (parseStrList su).map untilde
    if sw.length != sv.length || sw.length != us.length || sw.length < 2 then "bad-op" else
    if sw.any (fun w => match w with | some x => x < 0 || x > 1000000 | none => false) then "bad-op" else
    let ws := sw.map fun w => (w.getD 1).toNat
    match SplitClientsJudge.judgeG (kind == "grpc") ws sv us blk pp (inv == "1") with
    | [] => "ok"
    | cs => "fail " ++ " ".intercalate cs
  | _, _, _, _, _, _, _ => "bad-op"

def driver (args : List String) : IO UInt32 := do
  let stdin ← IO.getStdin
  let stdout ← IO.getStdout
  match args with
  | ["model"] => forEachLine stdin fun l => stdout.putStrLn (modelLine false l)
  | ["prefix"] => forEachLine stdin fun l => stdout.putStrLn (modelLine true l)
  | ["judge"] => forEachLine stdin fun l => stdout.putStrLn (judgeLine l)
  | ["e2emodel"] => forEachLine stdin fun l => stdout.putStrLn (e2eModelLine l)
  | ["e2ejudge"] => forEachLine stdin fun l => stdout.putStrLn (e2eJudgeLine l)
  | ["wmodel"] => forEachLine stdin fun l => stdout.putStrLn (weightModelLine l)
  | ["wjudge"] => forEachLine stdin fun l => stdout.putStrLn (weightJudgeLine l)
  | _ => IO.eprintln "usage: C15 model|prefix|judge|e2emodel|e2ejudge|wmodel|wjudge"; return 2
  return 0

end NGF.C15Driver

/-- executable entry point: `ngfdriver_C15 model|prefix|judge|wmodel|wjudge` -/
def main (args : List String) : IO UInt32 := NGF.C15Driver.driver args
