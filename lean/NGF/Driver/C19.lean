import NGF.Model.SnippetLex
import NGF.Model.Telemetry
import NGF.Model.TelemetryTruth
import NGF.Model.Proto
/-
Driver entry for C19.  Strings travel hex-encoded (UTF-8 bytes; `_` = empty string, `-` = empty list).

  model lines
    S filters=<F>                         -> dirs=<hexlist> counts=<natlist> sdirs=.. scounts=..  (s* = PRE-FIX split variant)
    P text=<hex>                          -> dirs=<hexlist>            (parseSnippetValueIntoDirectives only)
    R gc=<0|1> igc=<n> gw=<0|1> igw=<n> routes=<h|g|o,…> l4=<n> sec=<n> svc=<n> ups=<err:n,…> btp=<n>
      pols=<c|o|u|x:bits,…> np=<0|1> sf=<n> -> gc=.. gw=.. http=.. grpc=.. tls=.. sec=.. svc=.. ep=.. btp=..
                                               gwcsp=.. rtcsp=.. obs=.. usp=.. np=.. sf=..
    G flags=<f,…>                         -> names=<hexlist> values=<hexlist>
        f = hex(name):b:<0|1> | hex(name):o:hex(cur):hex(def):hex(type)
    L text=<hex>                          -> names=<hexlist>           (reference lexer, for cross-checks)
    T filters=<F>                         -> tidy=<0|1>                (are all snippets `isTidy`?)
    PL labels=<hex(k):hex(v),…|-> ns=<hexlist> pid=<hex>   -> platform=<hex>     (getPlatform)
    H plus=<0|1> steps=<step>|<step>|…   -> out=<o>|<o>|… sout=…   (handler + processor model; one `o` per batch:
        step = n | <e|c>;<ok|wf|rf|af>;<R fields separated by `;`>      `none;err=<0|1>` or the 15 counts `;`-separated + `;err=`)
  F = `~` | filter|filter|…      filter = nil | empty | hex(ctx):hex(text),…

  judge lines (the PROPERTY evaluated on what the real code returned)
    S filters=<F> dirs=<hexlist> counts=<natlist> marks=<hexlist>
    R <model fields> r_gc=.. r_gw=.. …          (real counts prefixed r_)
    G flags=<f,…> names=<hexlist> values=<hexlist>
    PL labels=… ns=… pid=<hex> platform=<hex>            (clause `platform-not-closed`)
    H steps=<jstep>|…    jstep = none;<real> | <R fields of the snapshot, `;`-separated>;<real>
                         real = r=none | r_gc=..;r_gw=..;…   (clauses `snapshot:<count>`, `snapshot:report-without-graph`)
  answer: ok | fail <sig>[,<sig>…] <hex(detail)>
-/
namespace NGF.C19
open NGF.Proto NGF.SnippetLex NGF.Telemetry

/-! ### hex -/

def hexVal (c : Char) : Option Nat :=
  if '0' ≤ c && c ≤ '9' then some (c.toNat - '0'.toNat)
  else if 'a' ≤ c && c ≤ 'f' then some (c.toNat - 'a'.toNat + 10)
  else if 'A' ≤ c && c ≤ 'F' then some (c.toNat - 'A'.toNat + 10)
  else none

def unhexBytes : List Char → Option (List UInt8)
  | [] => some []
  | a :: b :: rest => do
    let x ← hexVal a
    let y ← hexVal b
    let r ← unhexBytes rest
    pure (UInt8.ofNat (x * 16 + y) :: r)
  | _ => none

def unhex (s : String) : Option Str :=
  if s == "_" then some []
  else do
    let bs ← unhexBytes s.toList
    let str ← String.fromUTF8? (ByteArray.mk bs.toArray)
    pure str.toList

def hexDigit (n : Nat) : Char := if n < 10 then Char.ofNat (48 + n) else Char.ofNat (87 + n)

def hex (l : Str) : String :=
  if l.isEmpty then "_"
  else String.ofList ((String.ofList l).toUTF8.toList.flatMap fun b =>
    [hexDigit (b.toNat / 16), hexDigit (b.toNat % 16)])

def parseHexList (s : String) : Option (List Str) :=
  if s == "-" || s == "" then some [] else (s.splitOn ",").mapM unhex

def showHexList (l : List Str) : String :=
  if l.isEmpty then "-" else ",".intercalate (l.map hex)

/-! ### parsing of inputs -/

def parseFilter (s : String) : Option Filter :=
  if s == "nil" then some none
  else if s == "empty" then some (some [])
  else do
    let es ← (s.splitOn ",").mapM fun e =>
      match e.splitOn ":" with
      | [c, t] => do
        let c ← unhex c
        let t ← unhex t
        pure ({ ctx := c, text := t } : Snippet)
      | _ => none
    pure (some es)

def parseFilters (s : String) : Option (List Filter) :=
  if s == "~" then some [] else (s.splitOn "|").mapM parseFilter

def parseFlag (s : String) : Option (Str × FlagVal) :=
  match s.splitOn ":" with
  | [n, "b", v] => do
    let n ← unhex n
    if v == "1" then pure (n, .bool true) else if v == "0" then pure (n, .bool false) else none
  | [n, "o", c, d, _] => do
    let n ← unhex n
    let c ← unhex c
    let d ← unhex d
    pure (n, .other c d)
  | _ => none

def parseFlagList (s : String) : Option (List (Str × FlagVal)) :=
  if s == "-" then some [] else (s.splitOn ",").mapM parseFlag

def natField (fs : List String) (k : String) : Option Nat := field fs k >>= String.toNat?
def boolField (fs : List String) (k : String) : Option Bool :=
  match field fs k with
  | some "1" => some true
  | some "0" => some false
  | _ => none

def parseRoutes (s : String) : Option (List RouteType) :=
  if s == "-" then some []
  else (s.splitOn ",").mapM fun r =>
    if r == "h" then some .http else if r == "g" then some .grpc else if r == "o" then some .other else none

def parseUps (s : String) : Option (List UpstreamSummary) :=
  if s == "-" then some []
  else (s.splitOn ",").mapM fun u =>
    match u.splitOn ":" with
    | [e, n] => do
      let n ← n.toNat?
      if e == "1" then pure ⟨true, n⟩ else if e == "0" then pure ⟨false, n⟩ else none
    | _ => none

def parsePols (s : String) : Option (List PolicySummary) :=
  if s == "-" then some []
  else (s.splitOn ",").mapM fun p =>
    match p.splitOn ":" with
    | [k, bits] => do
      let kind ← (if k == "c" then some PolicyKind.clientSettings else if k == "o" then some .observability
        else if k == "u" then some .upstreamSettings else if k == "x" then some .other else none)
      let bs ← bits.toList.mapM fun c => if c == '1' then some true else if c == '0' then some false else none
      pure ⟨kind, bs⟩
    | _ => none

def parseSummary (fs : List String) : Option Summary := do
  let gc ← boolField fs "gc"
  let igc ← natField fs "igc"
  let gw ← boolField fs "gw"
  let igw ← natField fs "igw"
  let routes ← field fs "routes" >>= parseRoutes
  let l4 ← natField fs "l4"
  let sec ← natField fs "sec"
  let svc ← natField fs "svc"
  let ups ← field fs "ups" >>= parseUps
  let btp ← natField fs "btp"
  let pols ← field fs "pols" >>= parsePols
  let np ← boolField fs "np"
  let sf ← natField fs "sf"
  pure { hasGatewayClass := gc, ignoredGatewayClasses := igc, hasGateway := gw, ignoredGateways := igw,
         routes := routes, l4Routes := l4, secrets := sec, services := svc, upstreams := ups,
         backendTLSPolicies := btp, policies := pols, hasNginxProxy := np,
         snippetsFilters := List.replicate sf none }

def showCounts (c : Counts) : String :=
  s!"gc={c.gatewayClass} gw={c.gateway} http={c.httpRoute} grpc={c.grpcRoute} tls={c.tlsRoute} " ++
  s!"sec={c.secret} svc={c.service} ep={c.endpoint} btp={c.backendTLSPolicy} gwcsp={c.gwClientSettings} " ++
  s!"rtcsp={c.routeClientSettings} obs={c.observability} usp={c.upstreamSettings} np={c.nginxProxy} " ++
  s!"sf={c.snippetsFilter}"

/-! ### model mode -/

def allSnippets (fs : List Filter) : List Snippet := fs.flatMap fun f => f.getD []

def modelLine (line : String) : String :=
  let fs := line.splitOn " "
  match fs.head? with
  | some "S" =>
    match field fs "filters" >>= parseFilters with
    | some f =>
      let (d, c) := collectDirectives f
      let (sd, sc) := collectDirectivesSplit f
      s!"dirs={showHexList d} counts={showNatList c} sdirs={showHexList sd} scounts={showNatList sc}"
    | none => "bad-op"
  | some "P" =>
    match field fs "text" >>= unhex with
    | some t => s!"dirs={showHexList (parseSnippet t)}"
    | none => "bad-op"
  | some "L" =>
    match field fs "text" >>= unhex with
    | some t => s!"names={showHexList (directiveNames t)}"
    | none => "bad-op"
  | some "T" =>
    match field fs "filters" >>= parseFilters with
    | some f => if (allSnippets f).all (isTidy ·.text) then "tidy=1" else "tidy=0"
    | none => "bad-op"
  | some "R" =>
    match parseSummary fs with
    | some s => showCounts (countResources s)
    | none => "bad-op"
  | some "G" =>
    match field fs "flags" >>= parseFlagList with
    | some f =>
      let (n, v) := parseFlags f
      s!"names={showHexList n} values={showHexList v}"
    | none => "bad-op"
  | _ => "bad-op"

/-! ### platform / handler history (task C19-truth) -/

def parseLabels (s : String) : Option (List (Str × Str)) :=
  if s == "-" || s == "" then some []
  else (s.splitOn ",").mapM fun e =>
    match e.splitOn ":" with
    | [k, v] => do
      let k ← unhex k
      let v ← unhex v
      pure (k, v)
    | _ => none

def parseK8sState (fs : List String) : Option K8sState := do
  let labels ← field fs "labels" >>= parseLabels
  let ns ← field fs "ns" >>= parseHexList
  let pid ← field fs "pid" >>= unhex
  pure { labels := labels, providerID := pid, namespaces := ns }

def parseOutcome (s : String) : Option Outcome :=
  if s == "ok" then some .ok else if s == "wf" then some .writeFails else if s == "rf" then some .reloadFails
  else if s == "af" then some .apiFails else none

def dummySummary : Summary :=
  { hasGatewayClass := false, ignoredGatewayClasses := 0, hasGateway := false, ignoredGateways := 0, routes := [], l4Routes := 0,
    secrets := 0, services := 0, upstreams := [], backendTLSPolicies := 0, policies := [], hasNginxProxy := false,
    snippetsFilters := [] }

def parseStep (s : String) : Option Batch :=
  if s == "n" then some ⟨.noChange, dummySummary, .ok⟩
  else
    match s.splitOn ";" with
    | ct :: o :: rest => do
      let ct ← (if ct == "e" then some ChangeType.endpointsOnly else if ct == "c" then some ChangeType.clusterState else none)
      let o ← parseOutcome o
      let sm ← parseSummary rest
      pure ⟨ct, sm, o⟩
    | _ => none

def showStepOut (st : HState) : String :=
  let e := if st.lastError then "1" else "0"
  match telemetryCounts st with
  | none => s!"none;err={e}"
  | some c => (showCounts c).replace " " ";" ++ s!";err={e}"

/-- the states after every batch -/
def scanBatches (step : HState → Batch → HState) : HState → List Batch → List HState
  | _, [] => []
  | st, b :: bs => let st' := step st b; st' :: scanBatches step st' bs

def modelTruthLine (fs : List String) : Option String :=
  match fs.head? with
  | some "PL" => do
    let st ← parseK8sState fs
    pure s!"platform={hex (getPlatform st)}"
  | some "H" => do
    let plus ← boolField fs "plus"
    let steps ← field fs "steps"
    let bs ← (steps.splitOn "|").mapM parseStep
    -- `sout`: the success-only variant (NOT the code; seeded change C19-r4m2), so that the plugin can name a regression
    pure ("out=" ++ "|".intercalate ((scanBatches (handleBatch plus) .init bs).map showStepOut) ++
          " sout=" ++ "|".intercalate ((scanBatches (handleBatchSuccessOnly plus) .init bs).map showStepOut))
  | _ => none

/-! ### judge: snippets -/

/-- the documented context names (API enum `main|http|http.server|http.server.location`) -/
def specCtx (k : Str) : Str :=
  match String.ofList k with
  | "main" => "main".toList
  | "http" => "http".toList
  | "http.server" => "server".toList
  | "http.server.location" => "location".toList
  | _ => "unknown".toList

def ctxWords : List Str := ["main", "http", "server", "location", "unknown"].map String.toList

/-- split a reported string at its last '-' -/
def splitLastDash (r : Str) : Option (Str × Str) :=
  let rev := r.reverse
  let c := (rev.takeWhile (· != '-')).reverse
  match rev.dropWhile (· != '-') with
  | _ :: d => some (d.reverse, c)
  | [] => none

structure Ann where
  tok : Tok
  start : Nat
  depth : Nat
  idx : Nat

def annotate : Nat → Nat → Nat → List Tok → List Ann
  | _, _, _, [] => []
  | p, d, i, t :: ts =>
    let a : Ann := ⟨t, p, d, i⟩
    let p' := p + t.raw.length
    match t with
    | .ws _ | .comment _ => a :: annotate p' d i ts
    | .word _ _ => a :: annotate p' d (i + 1) ts
    | .semi => a :: annotate p' d 0 ts
    | .lb => a :: annotate p' (d + 1) 0 ts
    | .rb => a :: annotate p' (d - 1) 0 ts

def occurrences (d s : Str) : List Nat :=
  let rec go (i : Nat) : Str → List Nat
    | [] => []
    | c :: cs => (if d.isPrefixOf (c :: cs) then [i] else []) ++ go (i + 1) cs
  go 0 s

/-- does the reported string start right after a `;` (or at the start of the text), whitespace apart? -/
def chunkStart (s : Str) (i : Nat) : Bool :=
  match ((s.take i).reverse.dropWhile isGoSpace) with
  | [] => true
  | c :: _ => c == ';'

/-- lexical provenance of a reported string at offset `i`; `none` = it is a depth-0 directive name there -/
def labelAt (s : Str) (anns : List Ann) (d : Str) (i : Nat) : Option String :=
  match anns.find? fun a => a.start ≤ i && i < a.start + a.tok.raw.length with
  | none => some "not-in-snippet"
  | some a =>
    match a.tok with
    | .comment _ => some "comment-text"
    | .ws _ => some "whitespace"
    | .semi => some "semicolon"
    | .lb => some "opening-brace"
    | .rb => some "closing-brace"
    | .word raw q =>
      if q != .none then (if raw.contains ';' then some "quoted-semicolon" else some "quoted-argument")
      else if raw.contains ';' && i > a.start then some "escaped-semicolon"
      else if a.depth ≥ 1 then (if a.idx == 0 then some "nested-block-entry" else some "nested-argument")
      else if a.idx ≥ 1 then some "argument"
      else if i == a.start && d == wordValue raw q then none
      else if i == a.start && raw.isPrefixOf d then
        match s.drop (a.start + raw.length) with
        | c :: _ =>
          if c == '\t' || c == '\n' || c == '\r' then some "tab-or-newline-separator"
          else if c == '{' then some "brace-glued-name"
          else some "name-overrun"
        | [] => some "name-overrun"
      else some "name-fragment"

/-- does the occurrence of `d` at offset `i` end where a word ends (whitespace, `;`, `{`, `}`, end of text)? -/
def endsAtBoundary (s d : Str) (i : Nat) : Bool :=
  match s.drop (i + d.length) with
  | [] => true
  | c :: _ => isGoSpace c || c == ';' || c == '{' || c == '}'

/-- shape of an unexpected reported directive `d` for context name `c`: the lexical provenance of its best
occurrence (preferring occurrences that start a `;`-chunk and end at a word boundary, then text order) -/
def classify (snips : List Snippet) (c d : Str) : String :=
  let cands := snips.filter (specCtx ·.ctx == c) |>.flatMap fun sn =>
    let anns := annotate 0 0 0 (lex sn.text)
    (occurrences d sn.text).filterMap fun i =>
      (labelAt sn.text anns d i).map fun l =>
        ((if chunkStart sn.text i then 2 else 0) + (if endsAtBoundary sn.text d i then 1 else 0), l)
  match [3, 2, 1, 0].findSome? fun sc => cands.find? (·.1 == sc) with
  | some (_, l) => l
  | none => if d.isEmpty then "empty-directive" else "not-in-snippet"

/-- shape of a depth-0 directive that the report lacks although nothing unexpected was reported -/
def classifyMissing (snips : List Snippet) (c d : Str) : String :=
  let afterBlock := snips.filter (specCtx ·.ctx == c) |>.any fun sn =>
    let rec go (prevClose : Bool) (depth : Nat) (st : Bool) : List Tok → Bool
      | [] => false
      | .ws _ :: ts => go prevClose depth st ts
      | .comment _ :: ts => go prevClose depth st ts
      | .word r q :: ts => (depth == 0 && st && prevClose && wordValue r q == d) || go false depth false ts
      | .semi :: ts => go false depth true ts
      | .lb :: ts => go true (depth + 1) true ts
      | .rb :: ts => go true (depth - 1) true ts
    go false 0 true (lex sn.text)
  if afterBlock then "directive-after-block" else "other"

def expectedCount (snips : List Snippet) (c d : Str) : Nat :=
  (snips.filter (specCtx ·.ctx == c)).foldl (fun n sn => n + (directiveNames sn.text).count d) 0

def strLt (a b : Str) : Bool := decide (String.ofList a < String.ofList b)

/-- documented order: count (descending), then context, then directive; strict, hence no duplicates -/
def orderOk : List (Str × Str × Nat) → Bool
  | (d1, c1, n1) :: (d2, c2, n2) :: rest =>
    (n1 > n2 || (n1 == n2 && (strLt c1 c2 || (c1 == c2 && strLt d1 d2)))) && orderOk ((d2, c2, n2) :: rest)
  | _ => true

def hasSub (needle hay : Str) : Bool :=
  let rec go : Str → Bool
    | [] => needle.isEmpty
    | c :: cs => needle.isPrefixOf (c :: cs) || go cs
  go hay

/-- every window of length 4 of `m` (marks shorter than 4 count as a whole) -/
def windows4 (m : Str) : List Str :=
  if m.length ≤ 4 then [m]
  else
    let rec go : Str → List Str
      | [] => []
      | c :: cs => if (c :: cs).length ≥ 4 then (c :: cs).take 4 :: go cs else []
    go m

def judgeS (fs : List Filter) (dirs : List Str) (counts : List Nat) (marks : List Str) :
    List String × Str :=
  let snips := allSnippets fs
  if dirs.length != counts.length then (["report:length-mismatch"], [])
  else
    let parsed := dirs.map splitLastDash
    match dirs.zip parsed |>.find? fun (_, p) =>
        match p with
        | some (_, c) => !ctxWords.contains c
        | none => true with
    | some (r, _) => (["report:malformed-directive-context"], r)
    | none =>
      let rows : List (Str × Str × Nat) :=
        (parsed.zip counts).filterMap fun (p, n) => p.map fun (d, c) => (d, c, n)
      let orderF := if orderOk rows then [] else ["report:order-or-duplicate"]
      let zeroF := if rows.any (·.2.2 == 0) then ["report:zero-count"] else []
      -- privacy / accuracy: every reported (d,c) is a depth-0 directive name of a snippet of that context
      let extras := rows.filter fun (d, c, n) => n > expectedCount snips c d
      let leakF := extras.map fun (d, c, _) => "leak:" ++ classify snips c d
      -- accuracy: nothing missing (only looked at when nothing unexpected was reported)
      let expectedKeys := (snips.flatMap fun sn =>
        (directiveNames sn.text).map fun d => (d, specCtx sn.ctx)).eraseDups
      let missing := expectedKeys.filter fun (d, c) =>
        let got := (rows.filter fun (d', c', _) => d' == d && c' == c).foldl (fun a r => a + r.2.2) 0
        got < expectedCount snips c d
      let missF := if extras.isEmpty then missing.map fun (d, c) => "miscount:" ++ classifyMissing snips c d
                   else []
      -- lexer-independent: no marked argument token (or a ≥4-character piece of one) in any reported string
      let markHit := dirs.find? fun r => marks.any fun m => (windows4 m).any fun w => hasSub w r
      let markF := match markHit with
        | some _ => if extras.isEmpty then ["leak:marked-token-unclassified"] else []
        | none => []
      let detail : Str := match extras, missing, markHit with
        | (d, c, _) :: _, _, _ => d ++ '-' :: c
        | [], (d, c) :: _, _ => d ++ '-' :: c
        | [], [], some r => r
        | _, _, _ => []
      ((orderF ++ zeroF ++ leakF ++ missF ++ markF).eraseDups, detail)

/-! ### judge: resource counts (set sizes of the summary, written independently of the loops) -/

def judgeR (s : Summary) (real : List String) : List String :=
  let get (k : String) : Option Nat := natField real ("r_" ++ k)
  let csp := s.policies.filter (·.kind == .clientSettings)
  let want : List (String × Nat) := [
    ("gc", s.ignoredGatewayClasses + (if s.hasGatewayClass then 1 else 0)),
    ("gw", s.ignoredGateways + (if s.hasGateway then 1 else 0)),
    ("http", (s.routes.filter (· == .http)).length),
    ("grpc", (s.routes.filter (· == .grpc)).length),
    ("tls", s.l4Routes),
    ("sec", s.secrets),
    ("svc", s.services),
    ("ep", ((s.upstreams.filter (!·.hasError)).map (·.endpoints)).sum),
    ("btp", s.backendTLSPolicies),
    ("gwcsp", (csp.filter (·.targetIsGateway.head? == some true)).length),
    ("rtcsp", (csp.filter (·.targetIsGateway.head? == some false)).length),
    ("obs", (s.policies.filter (·.kind == .observability)).length),
    ("usp", (s.policies.filter (·.kind == .upstreamSettings)).length),
    ("np", if s.hasNginxProxy then 1 else 0),
    ("sf", s.snippetsFilters.length)]
  want.filterMap fun (k, v) => if get k == some v then none else some ("count:" ++ k)

/-! ### judge: flags -/

def judgeG (flags : List (Str × FlagVal)) (names values : List Str) : List String :=
  let w (s : String) : Str := s.toList
  if names != flags.map (·.1) then ["flag:names-differ"]
  else if values.length != flags.length then ["flag:length-mismatch"]
  else
    ((flags.zip values).filterMap fun ((_, f), v) =>
      if !([w "true", w "false", w "default", w "user-defined"].contains v) then some "flag:value-not-reduced"
      else match f with
        | .bool b => if v == w (if b then "true" else "false") then none else some "flag:bool-wrong"
        | .other c d =>
          if v == w (if c == d then "default" else "user-defined") then none else some "flag:default-wrong").eraseDups

/-! ### judge: platform (clause `platform-not-closed`; follows from the word ONLY of the property's title) -/

/-- offset of the first `://` (index search, written independently of the model's `cutScheme`) -/
def firstSep (s : Str) : Option Nat :=
  (List.range (s.length + 1)).find? fun i => (s.drop i).take 3 == [':', '/', '/']

/-- remove Unicode white space at both ends (reverse/dropWhile; independent of the model's `trimRight`) -/
def trimBoth (s : Str) : Str := ((s.dropWhile isGoSpace).reverse.dropWhile isGoSpace).reverse

def platformWords : List Str := ["openshift", "rancher", "gke", "eks", "aks", "kind", "k3s", "other"].map String.toList

/-- the reported platform is one of the eight constants, or `other_<x>` with `<x>` ≠ "" the trimmed text before the first
`://` of a providerID that contains `://` -/
def judgePlatform (pid platform : Str) : List String :=
  if platformWords.contains platform then []
  else if "other_".toList.isPrefixOf platform then
    let x := platform.drop 6
    match firstSep pid with
    | some i => if !x.isEmpty && x == trimBoth (pid.take i) then [] else ["platform-not-closed"]
    | none => ["platform-not-closed"]
  else ["platform-not-closed"]

/-! ### judge: handler history — every report comes from ONE snapshot (graph + the configuration built from it) -/

def judgeStep (s : String) : List String :=
  let fs := s.splitOn ";"
  let realNone := field fs "r" == some "none"
  if fs.head? == some "none" then
    if realNone then [] else ["snapshot:report-without-graph"]
  else
    match parseSummary fs with
    | none => ["bad-op"]
    | some sm =>
      if realNone then []   -- nothing reported: nothing to hold against the snapshot (the correspondence compares it with the model)
      else (judgeR sm fs).map fun c => "snapshot:" ++ (c.drop 6).toString

def judgeH (steps : List String) : List String × Str :=
  let rec go (i : Nat) : List String → List String × Str
    | [] => ([], [])
    | s :: rest =>
      match judgeStep s with
      | [] => go (i + 1) rest
      | sigs => (sigs.eraseDups, (toString i).toList)
  go 0 steps

def verdict (sigs : List String) (detail : Str) : String :=
  if sigs.isEmpty then "ok" else s!"fail {",".intercalate sigs} {hex detail}"

def judgeLine (line : String) : String :=
  let fs := line.splitOn " "
  match fs.head? with
  | some "S" =>
    match field fs "filters" >>= parseFilters, field fs "dirs" >>= parseHexList,
          field fs "counts" >>= parseNatList, field fs "marks" >>= parseHexList with
    | some f, some d, some c, some m => let (s, det) := judgeS f d c m; verdict s det
    | _, _, _, _ => "bad-op"
  | some "R" =>
    match parseSummary fs with
    | some s => verdict (judgeR s fs) []
    | none => "bad-op"
  | some "G" =>
    match field fs "flags" >>= parseFlagList, field fs "names" >>= parseHexList,
          field fs "values" >>= parseHexList with
    | some f, some n, some v => verdict (judgeG f n v) []
    | _, _, _ => "bad-op"
  | some "PL" =>
    match field fs "pid" >>= unhex, field fs "platform" >>= unhex with
    | some pid, some pl => verdict (judgePlatform pid pl) pl
    | _, _ => "bad-op"
  | some "H" =>
    match field fs "steps" with
    | some st =>
      let (sigs, det) := judgeH (st.splitOn "|")
      if sigs.contains "bad-op" then "bad-op" else verdict sigs det
    | none => "bad-op"
  | _ => "bad-op"

def modelLine2 (line : String) : String :=
  let fs := line.splitOn " "
  match fs.head? with
  | some "PL" | some "H" => (modelTruthLine fs).getD "bad-op"
  | _ => modelLine line

def driver (args : List String) : IO UInt32 := do
  let stdin ← IO.getStdin
  let stdout ← IO.getStdout
  match args with
  | ["model"] => forEachLine stdin fun l => stdout.putStrLn (modelLine2 l)
  | ["judge"] => forEachLine stdin fun l => stdout.putStrLn (judgeLine l)
  | _ => IO.eprintln "usage: C19 model|judge"; return 2
  return 0

end NGF.C19

/-- executable entry point: `ngfdriver_C19 model|judge` -/
def main (args : List String) : IO UInt32 := NGF.C19.driver args
