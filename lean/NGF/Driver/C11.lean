import NGF.Model.FileMgr
import NGF.Model.Proto
/-
Driver entry for C11.
  scenario  : `init=<fs> steps=<step>;<step>;…`
      fs    : `-` | `<path>,<mode>,<hex>+…`           (mode decimal, content hex)
      step  : `R|<files>|<sched>`  |  `S|<sched>`
      files : `-` | `<path>,<r|s>,<hex>+…`
      sched : `-` | `<opidx>:<e|n|pN|cN>+…`
  model out : `<outcome>|<ops>|<fs sorted by path>|<lastWrittenPaths>` per step, joined by `;`
  judge in  : scenario fields plus `obs=<o>;<o>;…`, one `o` per step:
              `<outcome>|<ops>|<fs>|<last>|<failinfo>`   failinfo: `-` | `<opkind>@<path>`
  judge out : `ok` | `fail <clause> step=<i> path=<p>`
-/
namespace NGF.FileMgr
open NGF.Proto

def hexVal (c : Char) : Option Nat :=
  if '0' ≤ c ∧ c ≤ '9' then some (c.toNat - '0'.toNat)
  else if 'a' ≤ c ∧ c ≤ 'f' then some (c.toNat - 'a'.toNat + 10)
  else none

def parseHexChars : List Char → Option (List Nat)
  | [] => some []
  | [_] => none
  | a :: b :: r => do
    let x ← hexVal a
    let y ← hexVal b
    let t ← parseHexChars r
    pure ((x * 16 + y) :: t)

def parseHex (s : String) : Option (List Nat) := parseHexChars s.toList

def hexDigit (n : Nat) : Char := if n < 10 then Char.ofNat (48 + n) else Char.ofNat (87 + n)

def showHex (l : List Nat) : String :=
  String.ofList (l.flatMap fun b => [hexDigit (b / 16 % 16), hexDigit (b % 16)])

def parseList {α} (s : String) (sep : String) (f : String → Option α) : Option (List α) :=
  if s == "-" || s == "" then some [] else (s.splitOn sep).mapM f

def parseFsEntry (s : String) : Option (String × FileObj) :=
  match s.splitOn "," with
  | [p, m, h] => do pure (p, ⟨← parseHex h, ← m.toNat?⟩)
  | _ => none

def parseFS (s : String) : Option FS := parseList s "+" parseFsEntry

def parseFile (s : String) : Option File :=
  match s.splitOn "," with
  | [p, t, h] => do
    let ty ← if t == "r" then some FType.regular else if t == "s" then some FType.secret else none
    pure ⟨p, ← parseHex h, ty⟩
  | _ => none

def parseFault (s : String) : Option (Nat × Fault) :=
  match s.splitOn ":" with
  | [k, f] => do
    let k ← k.toNat?
    if f == "e" then pure (k, .eio)
    else if f == "n" then pure (k, .enoent)
    else if f.startsWith "p" then pure (k, .partialW (← (f.drop 1).toString.toNat?))
    else if f.startsWith "c" then pure (k, .crash (← (f.drop 1).toString.toNat?))
    else none
  | _ => none

def schedOf (l : List (Nat × Fault)) : Sched := fun k => l.lookup k

def parseSched (s : String) : Option Sched := (parseList s "+" parseFault).map schedOf

/-- a parsed step keeps the file list for the judge -/
inductive PStep
  | replace (files : List File) (sch : Sched)
  | start (sch : Sched)

def parseStep (s : String) : Option PStep :=
  match s.splitOn "|" with
  | ["R", fl, sc] => do pure (.replace (← parseList fl "+" parseFile) (← parseSched sc))
  | ["S", sc] => do pure (.start (← parseSched sc))
  | _ => none

def PStep.toStep : PStep → Step
  | .replace f s => .replace s f
  | .start s => .start s

def showOutcome : Outcome → String
  | .ok => "ok" | .failed => "fail" | .crashed => "crash"

def sortedFS (fs : FS) : List (String × FileObj) :=
  (sortPaths (keys fs).eraseDups).filterMap fun p => (get fs p).map fun o => (p, o)

def showFS (fs : FS) : String :=
  let l := sortedFS fs
  if l.isEmpty then "-" else "+".intercalate (l.map fun (p, o) => s!"{p},{o.mode},{showHex o.content}")

def showPaths (l : List String) : String := if l.isEmpty then "-" else "+".intercalate l

/-- number of operations used by a step (reported for the correspondence) -/
def stepOps (s : Sys) : Step → Nat
  | .replace sch files => if s.up then (replaceFiles sch s.st files).ops else 0
  | .start sch => (clearFolders sch s.st.fs managedFolders).k

def runShow (s : Sys) : List Step → List String
  | [] => []
  | a :: as =>
    let (s', o) := sysStep s a
    s!"{showOutcome o}|{stepOps s a}|{showFS s'.st.fs}|{showPaths s'.st.last}" :: runShow s' as

def modelLine (line : String) : String :=
  let fs := line.splitOn " "
  match field fs "init" >>= parseFS, field fs "steps" >>= (parseList · ";" parseStep) with
  | some init, some steps =>
    ";".intercalate (runShow ⟨⟨init, []⟩, false⟩ (steps.map PStep.toStep))
  | _, _ => "bad-op"

/-! ### the judge: the property evaluated on what the real code left on the real disk -/

structure Obs where
  out  : String
  disk : FS
  fail : String   -- "-" or "<opkind>@<path>"

def parseObs (s : String) : Option Obs :=
  match s.splitOn "|" with
  | [o, _, fs, _, fi] => do pure ⟨o, ← parseFS fs, fi⟩
  | _ => none

structure JSt where
  prev   : FS            -- disk before the step
  boot   : FS            -- disk right after the last completed start-up
  succ   : List String   -- paths of the sets replaced successfully since the last start-up
  failed : List String   -- paths whose chmod/write failed in an earlier failed replacement

def isPrefixNat : List Nat → List Nat → Bool
  | [], _ => true
  | _ :: _, [] => false
  | a :: as, b :: bs => a == b && isPrefixNat as bs

/-- no secret content is ever world-readable, not even after a fault: a file that this call changed,
whose path is secret in every entry of the attempted set and whose non-empty content is (a prefix of)
that secret content, has no permission bit for "others". -/
def secretClause (prev : FS) (files : List File) (disk : FS) : Option String :=
  files.findSome? fun f =>
    let occ := files.filter (·.path == f.path)
    if occ.all (·.typ == .secret) then
      match get disk f.path with
      | some o =>
        if get prev f.path != some o && o.content != [] && occ.any (fun g => isPrefixNat o.content g.content)
            && o.mode % 8 != 0 then some s!"secret-world-readable path={f.path}" else none
      | none => none
    else none

/-- after a successful replacement: every file of the set is there with its content (for a path that
occurs twice: the content of one of its entries), nothing else is there except a bootstrap file that
start-up left in place and that no successful replacement has written since. -/
def successClause (j : JSt) (files : List File) (disk : FS) : Option String :=
  let missing := files.findSome? fun f =>
    match get disk f.path with
    | some o =>
      if (files.filter (·.path == f.path)).any (·.content == o.content) then none
      else some s!"wrong-content path={f.path}"
    | none => some s!"missing-file path={f.path}"
  match missing with
  | some m => some m
  | none =>
    (sortedFS disk).findSome? fun (q, o) =>
      if files.any (·.path == q) then none
      else if ignorePaths.contains q && !j.succ.contains q &&
              (match get j.boot q with | some b => b.content == o.content | none => false) then none
      else if j.failed.contains q then some s!"untracked-failed-write path={q}"
      else some s!"stale-file-after-success path={q}"

/-- bootstrap files present before start-up are still there, unchanged -/
def bootKept (prev disk : FS) : Option String :=
  ignorePaths.findSome? fun q =>
    match get prev q with
    | some o => if get disk q == some o then none else some s!"startup-removes-bootstrap path={q}"
    | none => none

def startClause (prev disk : FS) : Option String :=
  match (sortedFS disk).findSome? fun (q, _) =>
      if ignorePaths.contains q then none else some s!"startup-leaves-nonbootstrap path={q}" with
  | some m => some m
  | none => bootKept prev disk

def failedPath (fi : String) : Option String :=
  match fi.splitOn "@" with
  | [k, p] => if k == "chmod" || k == "write" then some p else none
  | _ => none

def judgeSteps : Nat → JSt → List PStep → List Obs → Option String
  | _, _, [], _ => none
  | _, _, _ :: _, [] => some "bad-op"
  | i, j, st :: sts, o :: os =>
    let verdict : Option String × JSt :=
      match st with
      | .replace files _ =>
        match secretClause j.prev files o.disk with
        | some m => (some m, j)
        | none =>
          if o.out == "ok" then
            (successClause j files o.disk,
             { j with prev := o.disk, succ := j.succ ++ files.map (·.path) })
          else
            let fl := if o.out == "fail" then (failedPath o.fail).toList else []
            (none, { j with prev := o.disk, failed := j.failed ++ fl })
      | .start _ =>
        if o.out == "ok" then
          (startClause j.prev o.disk, { j with prev := o.disk, boot := o.disk, succ := [], failed := [] })
        else (bootKept j.prev o.disk, { j with prev := o.disk })
    match verdict with
    | (some m, _) => some s!"{m.replace " path=" s!" step={i} path="}"
    | (none, j') => judgeSteps (i + 1) j' sts os

def judgeLine (line : String) : String :=
  let fs := line.splitOn " "
  match field fs "init" >>= parseFS, field fs "steps" >>= (parseList · ";" parseStep),
        field fs "obs" >>= (parseList · ";" parseObs) with
  | some init, some steps, some obs =>
    if steps.length != obs.length then "bad-op"
    else match judgeSteps 0 ⟨init, init, [], []⟩ steps obs with
      | none => "ok"
      | some m => if m == "bad-op" then m else "fail " ++ m
  | _, _, _ => "bad-op"

def driver (args : List String) : IO UInt32 := do
  let stdin ← IO.getStdin
  let stdout ← IO.getStdout
  match args with
  | ["model"] => forEachLine stdin fun l => stdout.putStrLn (modelLine l)
  | ["judge"] => forEachLine stdin fun l => stdout.putStrLn (judgeLine l)
  | _ => IO.eprintln "usage: C11 model|judge"; return 2
  return 0

end NGF.FileMgr

/-- executable entry point: `ngfdriver_C11 model|judge` -/
def main (args : List String) : IO UInt32 := NGF.FileMgr.driver args
