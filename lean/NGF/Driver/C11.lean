import NGF.Model.FileMgr
import NGF.Model.GenPaths
import NGF.Model.Proto
/-
Driver entry for C11.
  scenario  : `init=<fs> steps=<step>;<step>;…`
      fs    : `-` | `<path>,<mode>,<hex>+…`           (mode decimal, content hex)
      step  : `R|<files>|<sched>`  |  `S|<sched>`
      files : `-` | `<path>,<r|s>,<hex>+…`
      sched : `-` | `<opidx>:<e|n|w|a|v|pN|cN>+…`   (e/a/v/w: the operation fails without effect, error value EIO-ish /
              EACCES / wrapped EIO / wrapped ENOENT; n: ENOENT — on remove the file has vanished, elsewhere just the value)
  model out : `<outcome>|<ops>|<fs sorted by path>|<lastWrittenPaths>` per step, joined by `;`
  judge in  : scenario fields plus `obs=<o>;<o>;…`, one `o` per step:
              `<outcome>|<ops>|<fs>|<last>|<failinfo>`   failinfo: `-` | `<opkind>@<path>`
  judge out : `ok` | `fail <clause> step=<i> path=<p>`
  genpaths in : `kp=<ns>/<name>,… bd=<ns>/<name>,… sn=<ctx>/<ns>/<name>,… csp=<ns>/<name>,… obs=<kind>/<ns>/<name>,…
                 plus=<0|1> ca=<0|1> cert=<0|1> key=<0|1>`   (`-` = empty list; ctx: main|http|server|location;
                 kind: ext|redirect|int) — the objects behind a `dataplane.Configuration`
  genpaths out: `<path>,<r|s>+…` = `GenPaths.generatedPaths (Objs.toIn …)` in generation order
  genjudge in : the genpaths fields plus `real=<path>,<r|s>+…` (what the real `Generate` returned)
  genjudge out: `ok` | `fail <clause> path=<p>`
-/
namespace NGF.FileMgr
open NGF.Proto

def hexVal (c : Char) : Option Nat :=
  if '0' ≤ c ∧ c ≤ '9' then some (c.toNat - '0'.toNat)
  else if 'a' ≤ c ∧ c ≤ 'f' then some (c.toNat - 'a'.toNat + 10)
  else none

def parseHexChars : List Char → Option (List Nat)
  | [] => some []
  | [_] => none
  | a :: b :: r => do
    let x ← hexVal a
    let y ← hexVal b
    let t ← parseHexChars r
    pure ((x * 16 + y) :: t)

def parseHex (s : String) : Option (List Nat) := parseHexChars s.toList

def hexDigit (n : Nat) : Char := if n < 10 then Char.ofNat (48 + n) else Char.ofNat (87 + n)

def showHex (l : List Nat) : String :=
  String.ofList (l.flatMap fun b => [hexDigit (b / 16 % 16), hexDigit (b % 16)])

def parseList {α} (s : String) (sep : String) (f : String → Option α) : Option (List α) :=
  if s == "-" || s == "" then some [] else (s.splitOn sep).mapM f

def parseFsEntry (s : String) : Option (String × FileObj) :=
  match s.splitOn "," with
  | [p, m, h] => do pure (p, ⟨← parseHex h, ← m.toNat?⟩)
  | _ => none

def parseFS (s : String) : Option FS := parseList s "+" parseFsEntry

def parseFile (s : String) : Option File :=
  match s.splitOn "," with
  | [p, t, h] => do
    let ty ← if t == "r" then some FType.regular else if t == "s" then some FType.secret else none
    pure ⟨p, ← parseHex h, ty⟩
  | _ => none

def parseFault (s : String) : Option (Nat × Fault) :=
  match s.splitOn ":" with
  | [k, f] => do
    let k ← k.toNat?
    if f == "e" then pure (k, .eio)
    else if f == "n" then pure (k, .enoent)
    -- error VALUES of a failing operation (wrapped ENOENT, bare EACCES, wrapped EIO): for the model every error of
    -- create/chmod/write aborts the call, and on remove only the OS's own (bare) ENOENT is "already gone"
    else if f == "w" || f == "a" || f == "v" then pure (k, .eio)
    else if f.startsWith "p" then pure (k, .partialW (← (f.drop 1).toString.toNat?))
    else if f.startsWith "c" then pure (k, .crash (← (f.drop 1).toString.toNat?))
    else none
  | _ => none

def schedOf (l : List (Nat × Fault)) : Sched := fun k => l.lookup k

def parseFaults (s : String) : Option (List (Nat × Fault)) := parseList s "+" parseFault

def parseSched (s : String) : Option Sched := (parseFaults s).map schedOf

/-- a parsed step keeps the file list and the list of injected faults for the judge -/
inductive PStep
  | replace (files : List File) (faults : List (Nat × Fault))
  | start (faults : List (Nat × Fault))

def parseStep (s : String) : Option PStep :=
  match s.splitOn "|" with
  | ["R", fl, sc] => do pure (.replace (← parseList fl "+" parseFile) (← parseFaults sc))
  | ["S", sc] => do pure (.start (← parseFaults sc))
  | _ => none

def PStep.toStep : PStep → Step
  | .replace f s => .replace (schedOf s) f
  | .start s => .start (schedOf s)

def showOutcome : Outcome → String
  | .ok => "ok" | .failed => "fail" | .crashed => "crash"

def sortedFS (fs : FS) : List (String × FileObj) :=
  (sortPaths (keys fs).eraseDups).filterMap fun p => (get fs p).map fun o => (p, o)

def showFS (fs : FS) : String :=
  let l := sortedFS fs
  if l.isEmpty then "-" else "+".intercalate (l.map fun (p, o) => s!"{p},{o.mode},{showHex o.content}")

def showPaths (l : List String) : String := if l.isEmpty then "-" else "+".intercalate l

/-- number of operations used by a step (reported for the correspondence) -/
def stepOps (s : Sys) : Step → Nat
  | .replace sch files => if s.up then (replaceFiles sch s.st files).ops else 0
  | .start sch => (clearFolders sch s.st.fs managedFolders).k

def runShow (s : Sys) : List Step → List String
  | [] => []
  | a :: as =>
    let (s', o) := sysStep s a
    s!"{showOutcome o}|{stepOps s a}|{showFS s'.st.fs}|{showPaths s'.st.last}" :: runShow s' as

def modelLine (line : String) : String :=
  let fs := line.splitOn " "
  match field fs "init" >>= parseFS, field fs "steps" >>= (parseList · ";" parseStep) with
  | some init, some steps =>
    ";".intercalate (runShow ⟨⟨init, []⟩, false⟩ (steps.map PStep.toStep))
  | _, _ => "bad-op"

/-! ### the judge: the property evaluated on what the real code left on the real disk -/

structure Obs where
  out  : String
  ops  : Nat             -- number of OSFileManager operations the call performed
  disk : FS
  last : List String     -- lastWrittenPaths after the call
  fail : String   -- "-" or "<opkind>@<path>"

def parseObs (s : String) : Option Obs :=
  match s.splitOn "|" with
  | [o, n, fs, l, fi] => do
    pure ⟨o, ← n.toNat?, ← parseFS fs, if l == "-" then [] else l.splitOn "+", fi⟩
  | _ => none

structure JSt where
  prev   : FS            -- disk before the step
  boot   : FS            -- disk right after the last completed start-up
  succ   : List String   -- paths of the sets replaced successfully since the last start-up
  failed : List String   -- paths whose chmod/write failed in an earlier failed replacement
  up     : Bool := false -- a start-up has completed and no crash happened since: a `ManagerImpl` exists
  last   : List String := []  -- lastWrittenPaths before the step

def isPrefixNat : List Nat → List Nat → Bool
  | [], _ => true
  | _ :: _, [] => false
  | a :: as, b :: bs => a == b && isPrefixNat as bs

/-- no secret content is ever world-readable, not even after a fault: a file that this call changed,
whose path is secret in every entry of the attempted set and whose non-empty content is (a prefix of)
that secret content, has no permission bit for "others". -/
def secretClause (prev : FS) (files : List File) (disk : FS) : Option String :=
  files.findSome? fun f =>
    let occ := files.filter (·.path == f.path)
    if occ.all (·.typ == .secret) then
      match get disk f.path with
      | some o =>
        if get prev f.path != some o && o.content != [] && occ.any (fun g => isPrefixNat o.content g.content)
            && o.mode % 8 != 0 then some s!"secret-world-readable path={f.path}" else none
      | none => none
    else none

/-- after a successful replacement: every file of the set is there with its content (for a path that
occurs twice: the content of one of its entries), nothing else is there except a bootstrap file that
start-up left in place and that no successful replacement has written since. -/
def successClause (j : JSt) (files : List File) (disk : FS) : Option String :=
  let missing := files.findSome? fun f =>
    match get disk f.path with
    | some o =>
      if (files.filter (·.path == f.path)).any (·.content == o.content) then none
      else some s!"wrong-content path={f.path}"
    | none => some s!"missing-file path={f.path}"
  match missing with
  | some m => some m
  | none =>
    (sortedFS disk).findSome? fun (q, o) =>
      if files.any (·.path == q) then none
      else if ignorePaths.contains q && !j.succ.contains q &&
              (match get j.boot q with | some b => b.content == o.content | none => false) then none
      else if j.failed.contains q then some s!"untracked-failed-write path={q}"
      else some s!"stale-file-after-success path={q}"

/-- bootstrap files present before start-up are still there, unchanged -/
def bootKept (prev disk : FS) : Option String :=
  ignorePaths.findSome? fun q =>
    match get prev q with
    | some o => if get disk q == some o then none else some s!"startup-removes-bootstrap path={q}"
    | none => none

def startClause (prev disk : FS) : Option String :=
  match (sortedFS disk).findSome? fun (q, _) =>
      if ignorePaths.contains q then none else some s!"startup-leaves-nonbootstrap path={q}" with
  | some m => some m
  | none => bootKept prev disk

/-- **recovery is live**: a `ReplaceFiles` call during which the fault schedule injected nothing (every scheduled
operation index lies beyond the operations the call performed) returns nil, whatever earlier calls left behind.
The reported path is a tracked path that was not on disk when the call began (the usual reason), if any. -/
def faultFreeClause (j : JSt) (faults : List (Nat × Fault)) (o : Obs) : Option String :=
  if j.up && o.out == "fail" && faults.all (fun kf => decide (o.ops ≤ kf.1)) then
    let p := (j.last.find? fun q => (get j.prev q).isNone).getD "-"
    some s!"fault-free-replacement-fails path={p}"
  else none

def failedPath (fi : String) : Option String :=
  match fi.splitOn "@" with
  | [k, p] => if k == "chmod" || k == "write" then some p else none
  | _ => none

def judgeSteps : Nat → JSt → List PStep → List Obs → Option String
  | _, _, [], _ => none
  | _, _, _ :: _, [] => some "bad-op"
  | i, j, st :: sts, o :: os =>
    let verdict : Option String × JSt :=
      match st with
      | .replace files faults =>
        match secretClause j.prev files o.disk with
        | some m => (some m, j)
        | none =>
          if o.out == "ok" then
            (successClause j files o.disk,
             { j with prev := o.disk, succ := j.succ ++ files.map (·.path), last := o.last })
          else
            let fl := if o.out == "fail" then (failedPath o.fail).toList else []
            (faultFreeClause j faults o,
             { j with prev := o.disk, failed := j.failed ++ fl, up := j.up && o.out != "crash",
                      last := if j.up then o.last else j.last })
      | .start _ =>
        if o.out == "ok" then
          (startClause j.prev o.disk,
           { j with prev := o.disk, boot := o.disk, succ := [], failed := [], up := true, last := [] })
        else (bootKept j.prev o.disk, { j with prev := o.disk, up := false, last := [] })
    match verdict with
    | (some m, _) => some s!"{m.replace " path=" s!" step={i} path="}"
    | (none, j') => judgeSteps (i + 1) j' sts os

def judgeLine (line : String) : String :=
  let fs := line.splitOn " "
  match field fs "init" >>= parseFS, field fs "steps" >>= (parseList · ";" parseStep),
        field fs "obs" >>= (parseList · ";" parseObs) with
  | some init, some steps, some obs =>
    if steps.length != obs.length then "bad-op"
    else match judgeSteps 0 { prev := init, boot := init, succ := [], failed := [] } steps obs with
      | none => "ok"
      | some m => if m == "bad-op" then m else "fail " ++ m
  | _, _, _ => "bad-op"

/-! ### the generated file set (`NGF.GenPaths`) on the objects of a real configuration -/

open NGF.GenPaths in
def parsePair (s : String) : Option (Name × Name) :=
  match s.splitOn "/" with
  | [a, b] => some (a.toList, b.toList)
  | _ => none

open NGF.GenPaths in
def parseSnip (s : String) : Option (SnipCtx × Name × Name) :=
  match s.splitOn "/" with
  | [c, a, b] => do
    let c ← if c == "main" then some SnipCtx.main else if c == "http" then some .http
            else if c == "server" then some .server else if c == "location" then some .location else none
    pure (c, a.toList, b.toList)
  | _ => none

open NGF.GenPaths in
def parseObsP (s : String) : Option (ObsKind × Name × Name) :=
  match s.splitOn "/" with
  | [k, a, b] => do
    let k ← if k == "ext" then some ObsKind.ext else if k == "redirect" then some .redirect
            else if k == "int" then some .int else none
    pure (k, a.toList, b.toList)
  | _ => none

def parseFlag (s : String) : Option Bool := if s == "1" then some true else if s == "0" then some false else none

open NGF.GenPaths in
def parseObjs (fs : List String) : Option Objs := do
    pure { keyPairs := ← field fs "kp" >>= (parseList · "," parsePair)
           bundles := ← field fs "bd" >>= (parseList · "," parsePair)
           snippets := ← field fs "sn" >>= (parseList · "," parseSnip)
           csPolicies := ← field fs "csp" >>= (parseList · "," parsePair)
           obsPolicies := ← field fs "obs" >>= (parseList · "," parseObsP)
           plus := ← field fs "plus" >>= parseFlag
           mgmtCA := ← field fs "ca" >>= parseFlag
           mgmtCert := ← field fs "cert" >>= parseFlag
           mgmtKey := ← field fs "key" >>= parseFlag }

open NGF.GenPaths in
def genPathsLine (line : String) : String :=
  match parseObjs (line.splitOn " ") with
  | some o =>
    let l := generatedPaths o.toIn
    if l.isEmpty then "-"
    else "+".intercalate (l.map fun pt => s!"{String.ofList pt.1},{if pt.2 == FType.secret then "s" else "r"}")
  | none => "bad-op"

def parseReal (s : String) : Option (String × String) :=
  match s.splitOn "," with
  | [p, t] => some (p, t)
  | _ => none

/-- the property on the list the REAL `Generate` returned for these objects: no path twice; every path directly
in a managed folder; the PEM file of every key pair present; every secret path (`GenPaths.secretPaths`) has the
secret type — else it would be written with the world-readable mode. -/
def genJudgeLine (line : String) : String :=
  let fs := line.splitOn " "
  match parseObjs fs, field fs "real" >>= (parseList · "+" parseReal) with
  | some o, some real =>
    let paths := real.map (·.1)
    let twice := paths.find? fun p => (paths.filter (· == p)).length > 1
    let outside := paths.find? fun p => !managedFolders.contains (dirOf p)
    let secret := (GenPaths.secretPaths o.toIn).map String.ofList
    let missing := (o.toIn.keyPairIds.map fun id => String.ofList (GenPaths.pemEntry id).path).find? fun p => !paths.contains p
    let exposed := real.find? fun pt => secret.contains pt.1 && pt.2 != "s"
    match twice, outside, missing, exposed with
    | some p, _, _, _ => s!"fail generated-path-twice path={p}"
    | _, some p, _, _ => s!"fail generated-path-outside-managed-folders path={p}"
    | _, _, some p, _ => s!"fail key-pair-file-missing path={p}"
    | _, _, _, some pt => s!"fail key-file-not-secret-type path={pt.1}"
    | _, _, _, _ => "ok"
  | _, _ => "bad-op"

def driver (args : List String) : IO UInt32 := do
  let stdin ← IO.getStdin
  let stdout ← IO.getStdout
  match args with
  | ["model"] => forEachLine stdin fun l => stdout.putStrLn (modelLine l)
  | ["judge"] => forEachLine stdin fun l => stdout.putStrLn (judgeLine l)
  | ["genpaths"] => forEachLine stdin fun l => stdout.putStrLn (genPathsLine l)
  | ["genjudge"] => forEachLine stdin fun l => stdout.putStrLn (genJudgeLine l)
  | _ => IO.eprintln "usage: C11 model|judge|genpaths|genjudge"; return 2
  return 0

end NGF.FileMgr

/-- executable entry point: `ngfdriver_C11 model|judge` -/
def main (args : List String) : IO UInt32 := NGF.FileMgr.driver args
