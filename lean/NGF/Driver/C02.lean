import Lean.Data.Json
import NGF.Model.C02Judge
import NGF.Model.PipelineTie
import NGF.Model.PipelineTlsProbe
import NGF.Model.Hostname
import NGF.Model.Precedence
import NGF.Model.Proto
/-
Driver entry for C02. Every input line is one JSON object written by harness/c02 (see run.go).
  judge : k=J → the property on the real files: {"ok":…,"probes":…,"failures":[{"sig","detail"}],…}
          k=M → metamorphic pair: {"ok":…,"probes":…,"detail":…}
          k=G → grpc_convert_faithful on the real ConvertGRPCMatches output
          other kinds → {"skip":true}
  model : k=H/S/L/G/N → the Lean model's answer for the correspondence cases of the proved cores
Undecodable input answers {"error":"bad-op"}.
-/
namespace NGF.C02
open Lean (Json)
open NGF.Spec.GatewayAPI

def str (j : Json) (k : String) : Except String String := do (← j.getObjVal? k).getStr?
def nat (j : Json) (k : String) : Except String Nat := do (← j.getObjVal? k).getNat?
def int (j : Json) (k : String) : Except String Int := do (← j.getObjVal? k).getInt?
def bool (j : Json) (k : String) : Except String Bool := do (← j.getObjVal? k).getBool?
def arr (j : Json) (k : String) : Except String (List Json) := do
  match j.getObjVal? k with
  | .ok v => if v.isNull then pure [] else return (← v.getArr?).toList
  | .error _ => pure []
def strs (j : Json) (k : String) : Except String (List String) := do (← arr j k).mapM (·.getStr?)
def strMap (j : Json) (k : String) : Except String (List (String × String)) := do
  match j.getObjVal? k with
  | .ok (.obj m) => m.toList.mapM fun (a, b) => do pure (a, ← b.getStr?)
  | _ => pure []

def dKV (j : Json) : Except String KV := do pure ⟨← str j "type", ← str j "name", ← str j "value"⟩
def dHeader (j : Json) : Except String Header := do pure ⟨← str j "name", ← str j "value"⟩

def dMatch (j : Json) : Except String Match := do
  pure { ptype := ← str j "ptype", pvalue := ← str j "pvalue", method := ← str j "method",
         headers := ← (← arr j "headers").mapM dKV, query := ← (← arr j "query").mapM dKV,
         hasGm := ← bool j "hasGm", gmType := ← str j "gmType", hasService := ← bool j "hasService",
         service := ← str j "service", hasGMethod := ← bool j "hasGMethod", gmethod := ← str j "gmethod" }

def dFilter (j : Json) : Except String Filter := do
  pure { type := ← str j "type", present := ← bool j "present", scheme := ← str j "scheme", hostname := ← str j "hostname",
         hasPort := ← bool j "hasPort", port := ← nat j "port", code := ← nat j "code", pathType := ← str j "pathType",
         pathValue := ← str j "pathValue", set := ← (← arr j "set").mapM dHeader, add := ← (← arr j "add").mapM dHeader,
         remove := ← strs j "remove" }

def dBackend (j : Json) : Except String Backend := do
  pure { group := ← str j "group", kind := ← str j "kind", hasNs := ← bool j "hasNs", ns := ← str j "ns", name := ← str j "name",
         hasPort := ← bool j "hasPort", port := (← int j "port").toNat, weight := ← int j "weight", nfilters := ← nat j "nfilters" }

def dRule (j : Json) : Except String Rule := do
  pure { matches_ := ← (← arr j "matches").mapM dMatch, filters := ← (← arr j "filters").mapM dFilter,
         backends := ← (← arr j "backends").mapM dBackend }

def dParent (j : Json) : Except String ParentRef := do
  pure { group := ← str j "group", kind := ← str j "kind", hasNs := ← bool j "hasNs", ns := ← str j "ns", name := ← str j "name",
         hasSection := ← bool j "hasSection", sectionName := ← str j "section", hasPort := ← bool j "hasPort" }

def dRoute (j : Json) : Except String Route := do
  pure { kind := ← str j "kind", ns := ← str j "ns", name := ← str j "name", age := ← int j "age",
         parents := ← (← arr j "parents").mapM dParent, hostnames := ← strs j "hostnames", rules := ← (← arr j "rules").mapM dRule }

def dListener (j : Json) : Except String Listener := do
  pure { name := ← str j "name", port := (← int j "port").toNat, proto := ← str j "proto", hasHost := ← bool j "hasHost",
         host := ← str j "host", hasTls := ← bool j "hasTls", tlsMode := ← str j "tlsMode", tlsOpts := ← nat j "tlsOpts",
         certs := ← (← arr j "certs").mapM (fun c => do
           pure ({ group := ← str c "group", kind := ← str c "kind", hasNs := ← bool c "hasNs", ns := ← str c "ns", name := ← str c "name" } : CertRef)),
         nsFrom := ← str j "from", hasSel := ← bool j "hasSel", selMatch := ← strMap j "selMatch", selExprs := ← nat j "selExprs",
         hasKinds := ← bool j "hasKinds",
         kinds := ← (← arr j "kinds").mapM (fun c => do pure (⟨← str c "group", ← str c "kind"⟩ : KindRef)),
         selReqs := ← (match j.getObjVal? "selReqs" with
           | .ok (.arr a) => a.toList.mapM (fun c => do
               pure ({ key := ← str c "key", op := ← str c "op", values := ← strs c "values" } : SelReq))
           | _ => pure []) }

def dScenario (j : Json) : Except String Scenario := do
  pure { cls := ← str j "class", ctlr := ← str j "ctlr",
         protectedPorts := ← (← arr j "protected").mapM (·.getNat?),
         gcs := ← (← arr j "gcs").mapM (fun c => do pure (⟨← str c "name", ← str c "ctlr", ← int c "age", ← bool c "params"⟩ : GatewayClass)),
         gws := ← (← arr j "gws").mapM (fun g => do
           pure ({ ns := ← str g "ns", name := ← str g "name", cls := ← str g "class", age := ← int g "age",
                   addresses := ← nat g "addresses", listeners := ← (← arr g "listeners").mapM dListener } : Gateway)),
         nss := ← (← arr j "nss").mapM (fun n => do pure (⟨← str n "name", ← strMap n "labels"⟩ : Namespace)),
         routes := ← (← arr j "routes").mapM dRoute,
         svcs := ← (← arr j "svcs").mapM (fun v => do
           pure ({ ns := ← str v "ns", name := ← str v "name",
                   ports := ← (← arr v "ports").mapM (fun p => do pure (⟨(← int p "port").toNat, ← bool p "ready"⟩ : SvcPort)) } : Svc)),
         grants := ← (← arr j "grants").mapM (fun g => do
           pure ({ ns := ← str g "ns",
                   «from» := ← (← arr g "from").mapM (fun f => do pure (⟨← str f "group", ← str f "kind", ← str f "ns"⟩ : GrantFrom)),
                   to := ← (← arr g "to").mapM (fun t => do pure (⟨← str t "group", ← str t "kind", ← bool t "hasName", ← str t "name"⟩ : GrantTo)) } : Grant)),
         secrets := ← (← arr j "secrets").mapM (fun x => do pure (⟨← str x "ns", ← str x "name", ← bool x "ok"⟩ : Secret)) }

/-! ### files -/

def optStr (j : Json) (k : String) : String := match j.getObjVal? k with | .ok (.str x) => x | _ => ""

def dNjsMatch (j : Json) : Option NGF.NginxEval.Njs.Match :=
  match j with
  | .obj _ =>
    let any := match j.getObjVal? "any" with | .ok (.bool b) => b | _ => false
    let lst (k : String) : List (List Char) := match j.getObjVal? k with
      | .ok (.arr a) => a.toList.filterMap fun x => match x with | .str y => some y.toList | _ => none
      | _ => []
    some { any := any, method := (optStr j "method").toList, headers := lst "headers", params := lst "params",
           redirectPath := (optStr j "redirectPath").toList }
  | _ => none

def dMatches (text : String) : Except String (List (String × Option (List NGF.NginxEval.Njs.Match))) := do
  match ← Json.parse text with
  | .obj m => pure (m.toList.map fun (k, v) =>
      match v with
      | .arr a => (k, (a.toList.mapM dNjsMatch))
      | _ => (k, none))
  | _ => throw "matches.json is not an object"

def dConfig (j : Json) : Except String NGF.NginxEval.Config := do
  let http ← str j "http"
  let stream ← str j "stream"
  let m ← str j "matches"
  let h ← match NGF.Nginx.parseString http with
    | .ok d => pure d
    | .error e => throw s!"http.conf does not parse: {repr e}"
  let st ← match NGF.Nginx.parseString stream with
    | .ok d => pure d
    | .error e => throw s!"stream.conf does not parse: {repr e}"
  pure { http := h, stream := st, matchTab := ← dMatches m }

/-! ### judge -/

def probeCap : Nat := 1600

def listenerValidityDiff (s : Scenario) (obs : Json) : List String :=
  match winner s, obs.getObjVal? "listeners" with
  | some g, .ok (.obj m) =>
    let ours := (validListeners s g).map (·.name)
    (m.toList.filterMap fun (name, v) =>
      match v with
      | .bool b => if b != ours.contains name then some s!"{name}:graph={b}" else none
      | _ => none)
  | _, _ => []

def judgeJ (j : Json) : Except String Json := do
  let s ← dScenario (← j.getObjVal? "flat")
  match dConfig (← j.getObjVal? "files") with
  | .error e => pure (Json.mkObj [("ok", true), ("unparsable", e), ("probes", (0 : Nat))])
  | .ok cfg =>
    let t := judgeCase cfg s probeCap
    let lv := match j.getObjVal? "obs" with | .ok o => listenerValidityDiff s o | .error _ => []
    pure (Json.mkObj [
      ("ok", t.failures.isEmpty), ("probes", t.probes), ("agree", t.agreeN), ("ambiguous", t.ambiguous),
      ("outOfScope", t.outOfScope), ("confError", t.confError), ("confErrorMsg", t.confErrorMsg),
      ("hostReadingDiff", t.hostReadingDiff),
      ("classes", Json.mkObj (t.classes.map fun (k, v) => (k, (v : Json)))),
      ("listenerValidityDiff", Json.arr (lv.map Json.str).toArray),
      ("failures", Json.arr (t.failures.map fun f => Json.mkObj [("sig", f.signature), ("detail", f.detail)]).toArray)])

def judgeM (j : Json) : Except String Json := do
  let s ← dScenario (← j.getObjVal? "flat")
  match dConfig (← j.getObjVal? "a"), dConfig (← j.getObjVal? "b") with
  | .ok a, .ok b =>
    let (n, fs) := judgeMeta a b s probeCap
    pure (Json.mkObj [("ok", fs.isEmpty), ("probes", n),
      ("failures", Json.arr (fs.map fun f => Json.mkObj [("sig", f.signature), ("detail", f.detail)]).toArray)])
  | _, _ => pure (Json.mkObj [("ok", true), ("unparsable", true), ("probes", (0 : Nat))])

/-! ### cores: correspondence cases (model mode) and the GRPC conversion judge -/


def chars (j : Json) (k : String) : Except String (List Char) := do pure (← str j k).toList

def modelH (j : Json) : Except String Json := do
  let l := (optStr j "listener").toList
  let rs := (← strs j "routes").map String.toList
  let acc := NGF.Hostname.accepted l rs
  let ms := (← arr j "pairs").mapM fun p => do
    let a ← chars p "a"; let b ← chars p "b"
    pure (Json.mkObj [("match", NGF.Hostname.hmatch a b), ("more", String.ofList (NGF.Hostname.moreSpecific a b))])
  pure (Json.mkObj [("accepted", Json.arr (acc.map fun x => Json.str (String.ofList x)).toArray), ("pairs", Json.arr (← ms).toArray)])

def dKey (j : Json) : Except String NGF.Precedence.MatchKey := do
  pure { hasMethod := ← bool j "m", nHeaders := ← nat j "h", nQuery := ← nat j "q", age := ← int j "age",
         ns := (← str j "ns").toUTF8.toList.map (·.toNat), name := (← str j "name").toUTF8.toList.map (·.toNat), id := ← nat j "id" }

def modelS (j : Json) : Except String Json := do
  let ks ← (← arr j "rules").mapM dKey
  pure (Json.mkObj [("order", Json.arr ((NGF.Precedence.sortRules ks).map fun k => (k.id : Json)).toArray)])

def dGM (j : Json) : Except String NGF.Precedence.GRPCMatch := do
  pure { hasMethod := ← bool j "hasGm", service := ← match j.getObjVal? "service" with | .ok (.str x) => pure (some x.toList) | _ => pure none,
         method := ← match j.getObjVal? "gmethod" with | .ok (.str x) => pure (some x.toList) | _ => pure none,
         nHeaders := ← nat j "nh" }

def showConv (c : NGF.Precedence.ConvPath) : Json :=
  Json.mkObj [("exact", c.exact), ("path", String.ofList c.path), ("nh", c.nHeaders)]

def modelG (j : Json) : Except String Json := do
  let ms ← (← arr j "matches").mapM dGM
  pure (Json.mkObj [("conv", Json.arr ((NGF.Precedence.convertGRPC ms).map showConv).toArray)])

/-- grpc_convert_faithful evaluated on the REAL output of graph.ConvertGRPCMatches -/
def judgeG (j : Json) : Except String Json := do
  let ms ← (← arr j "matches").mapM dGM
  let out ← (← arr j "out").mapM fun o => do
    pure ({ exact := ← bool o "exact", path := (← str o "path").toList, nHeaders := ← nat o "nh" } : NGF.Precedence.ConvPath)
  pure (Json.mkObj [("ok", NGF.Precedence.convFaithful ms out)])

def dLocRule (j : Json) : Except String NGF.Precedence.PathRule := do
  pure { path := (← str j "path").toList, isPrefix := ← bool j "prefix" }

def modelL (j : Json) : Except String Json := do
  let rs ← (← arr j "rules").mapM dLocRule
  pure (Json.mkObj [("locs", Json.arr ((NGF.Precedence.genLocs rs).map fun l =>
    Json.mkObj [("exact", l.exact), ("path", String.ofList l.path), ("rule", l.rule)]).toArray)])

def dNjsReq (j : Json) : Except String NGF.NginxEval.Njs.Req := do
  let pairs (k : String) : Except String (List (List Char × List Char)) := do
    (← arr j k).mapM fun p => do
      match p with
      | .arr #[.str a, .str b] => pure (a.toList, b.toList)
      | _ => throw "pair"
  pure { method := (← str j "method").toList, headers := ← pairs "headers", args := ← pairs "args" }

def modelN (j : Json) : Except String Json := do
  let ms := (← arr j "matches").filterMap dNjsMatch
  let r ← dNjsReq (← j.getObjVal? "req")
  pure (Json.mkObj [("win", match NGF.NginxEval.Njs.findWinning r ms with
    | .found m => if m.redirectPath.isEmpty then Json.str "500" else Json.str (String.ofList m.redirectPath)
    | .notFound => Json.str "404"
    | .error => Json.str "500")])

/-- `pipeline` mode (k=J): translation validation of Model/Pipeline.gen against the real http.conf, and the fragment
theorem / restated specification executed on the probes -/
def pipelineJ (j : Json) : Except String Json := do
  let s ← dScenario (← j.getObjVal? "flat")
  match dConfig (← j.getObjVal? "files") with
  | .error e => pure (Json.mkObj [("inFragment", false), ("why", "unparsable: " ++ e)])
  | .ok cfg =>
    let t := NGF.PipelineTie.tie cfg s 600
    pure (Json.mkObj [("inFragment", t.inFragment), ("why", t.why), ("noShadow", t.noShadow), ("confEqual", t.confEqual),
      ("namesPlain", t.namesPlain), ("hostsDNS", t.hostsDNS), ("routesHaveRules", t.routesHaveRules), ("thmProbes", t.thmProbes),
      ("reqExcluded", t.reqExcluded),
      ("confDiff", t.confDiff), ("probes", t.probes), ("thmFail", t.thmFail.getD ""), ("specFail", t.specFail.getD "")])

/-- `pipelineT` mode: a fragment line of harness/c16 (`{"site":"frag","flat":…,"files":…,"secrets":[…]}`) — the refinement
theorem on HTTP + HTTPS listeners (`route_refines_spec_https`), `sni_host_mismatch_421`, and the restated specification
`routeT`, executed on the probes against the REAL configuration, the model `genT` and the full oracle -/
def pipelineTJ (j : Json) : Except String Json := do
  let s ← dScenario (← j.getObjVal? "flat")
  let gs (o : Json) (k : String) : Except String (List Char) := do return (← (← o.getObjVal? k).getStr?).toList
  let secrets ← match j.getObjVal? "secrets" with
    | .ok (.arr a) => a.toList.mapM fun o => do
        return ({ ns := ← gs o "ns", name := ← gs o "name", isTLS := (← gs o "type") = "kubernetes.io/tls".toList,
                  pairOK := ← (← o.getObjVal? "pairOK").getBool?, cert := ← gs o "cert", key := ← gs o "key" } : NGF.Tls.SecretObj)
    | _ => pure []
  match dConfig (← j.getObjVal? "files") with
  | .error e => pure (Json.mkObj [("inFragment", false), ("why", "unparsable: " ++ e)])
  | .ok cfg =>
    let t := NGF.PipelineTlsProbe.tie cfg s secrets 160
    pure (Json.mkObj [("inFragment", t.inFragment), ("why", t.why), ("hyp", t.hyp), ("realOK", t.realOK), ("realWhy", t.realWhy),
      ("probes", t.probes), ("tlsProbes", t.tlsProbes), ("thmProbes", t.thmProbes), ("thmTlsProbes", t.thmTlsProbes),
      ("exclSniServed", t.exclSniServed), ("exclShadow", t.exclShadow), ("exclReq", t.exclReq),
      ("mismatchProbes", t.mismatchProbes), ("thmFail", t.thmFail), ("realFail", t.realFail),
      ("realModelDiff", t.realModelDiff), ("specFail", t.specFail), ("mismatchFail", t.mismatchFail),
      ("outcomes", Json.mkObj (t.outcomes.map fun p => (p.1, (p.2 : Json))))])

def answer (mode : String) (line : String) : String :=
  match Json.parse line with
  | .error _ => "{\"error\":\"bad-op\"}"
  | .ok j =>
    let k := optStr j "k"
    let r : Except String Json :=
      if mode == "pipelineT" then pipelineTJ j
      else if mode == "pipeline" then
        if k == "J" then pipelineJ j else pure (Json.mkObj [("skip", true)])
      else if mode == "judge" then
        if k == "J" then judgeJ j else if k == "M" then judgeM j else if k == "G" then judgeG j
        else pure (Json.mkObj [("skip", true)])
      else
        if k == "H" then modelH j else if k == "S" then modelS j else if k == "G" then modelG j
        else if k == "L" then modelL j else if k == "N" then modelN j
        else pure (Json.mkObj [("skip", true)])
    match r with
    | .ok v => v.compress
    | .error e => (Json.mkObj [("error", "bad-op"), ("why", e)]).compress

def driver (args : List String) : IO UInt32 := do
  let stdin ← IO.getStdin
  let stdout ← IO.getStdout
  match args with
  | [m] =>
    if m == "judge" || m == "model" || m == "pipeline" || m == "pipelineT" then
      NGF.Proto.forEachLine stdin fun l => do stdout.putStrLn (answer m l); stdout.flush
      return 0
    else IO.eprintln "usage: C02 model|judge"; return 2
  | _ => IO.eprintln "usage: C02 model|judge"; return 2

end NGF.C02

/-- executable entry point: `ngfdriver_C02 model|judge` -/
def main (args : List String) : IO UInt32 := NGF.C02.driver args
