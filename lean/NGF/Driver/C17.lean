import Lean.Data.Json
import NGF.Model.Ownership
import NGF.Model.OwnershipJudge
import NGF.Model.OwnershipLeader
import NGF.DriverLib.C17Frag
import NGF.Model.Proto
/-
Driver entry for C17. Every input line is one JSON object written by harness/c17:
  {"k":kind,"id":n,"in":<flat cluster state>,"obs":<summary of the real graph>,"j":<real outputs>}
  `model` : run `buildGraph`/`targets` on "in" (route oracle fields `valid`,`svcs`), print the summary as JSON
  `clsmodel` : lines {"k":"clsev","ctlr","start","events"}: run `runClasses` (class store under the watch predicate)
  `fragx` : lines {"k":"fragx","a":{flat,in},"b":{flat,in},"filesEq"}: in-fragment pair (s, s ∪ X): the hypotheses of
            `noninterference_foreign_set` (`hypsB`) on the decoded `ScenarioR`s, the conclusion on the model, the verdict
            on the real files (DriverLib/C17Frag.lean)
  `leadmodel` : lines {"k":"leadops","batches","enableAfter"}: `mkBatches`/`opsOf` through `Leader.run`
  `judge` : evaluate the property (`NGF.Ownership.judge`) on "in" (route services from the spec) and "j":
            `ok` | `skip <why>` | `fail <clause> <detail>`
Undecodable input answers `bad-op`.
-/
namespace NGF.Ownership
open Lean (Json)

def optField (j : Json) (k : String) : Option Json :=
  match j.getObjVal? k with
  | .ok v => if v.isNull then none else some v
  | .error _ => none

def reqStr (j : Json) (k : String) : Except String String := do (← j.getObjVal? k).getStr?
def reqNat (j : Json) (k : String) : Except String Nat := do (← j.getObjVal? k).getNat?
def reqBool (j : Json) (k : String) : Except String Bool := do (← j.getObjVal? k).getBool?
def optStr (j : Json) (k : String) : Except String (Option String) :=
  match optField j k with
  | none => pure none
  | some v => do pure (some (← v.getStr?))
def reqArr (j : Json) (k : String) : Except String (List Json) := do
  match j.getObjVal? k with
  | .ok v => if v.isNull then pure [] else return (← v.getArr?).toList
  | .error _ => pure []
def strArr (j : Json) (k : String) : Except String (List String) := do (← reqArr j k).mapM (·.getStr?)
def boolOr (j : Json) (k : String) (d : Bool) : Bool :=
  match optField j k with
  | some v => (v.getBool?.toOption).getD d
  | none => d
def strOr (j : Json) (k : String) : String :=
  match optField j k with
  | some v => (v.getStr?.toOption).getD ""
  | none => ""

def parseNN (j : Json) : Except String NN := do return ⟨← reqStr j "ns", ← reqStr j "name"⟩

def parseKind (s : String) : Except String RKind :=
  if s == "HTTPRoute" then pure .http else if s == "GRPCRoute" then pure .grpc
  else if s == "TLSRoute" then pure .tls else throw ("route kind " ++ s)

def parsePRef (j : Json) : Except String PRef := do
  return ⟨← optStr j "group", ← optStr j "kind", ← optStr j "ns", ← reqStr j "name", ← optStr j "sect"⟩

/-- `spec` selects the judge's view (services named by the spec, valid := true) -/
def parseRoute (spec : Bool) (j : Json) : Except String Route := do
  let svcs ← (← reqArr j (if spec then "specSvcs" else "svcs")).mapM parseNN
  let v ← reqBool j "valid"
  return { kind := ← parseKind (← reqStr j "kind"), nn := ⟨← reqStr j "ns", ← reqStr j "name"⟩,
           parents := ← (← reqArr j "parents").mapM parsePRef,
           valid := spec || v, svcs := svcs,
           rulesReached := spec || boolOr j "rulesReached" true, sfRefs := ← strArr j "sfRefs" }

def parseTRef (j : Json) : Except String TRef := do
  return ⟨← reqStr j "group", ← reqStr j "kind", ← reqStr j "name"⟩

def parsePolicy (j : Json) : Except String Policy := do
  return ⟨← reqStr j "gvk", ⟨← reqStr j "ns", ← reqStr j "name"⟩, ← (← reqArr j "targets").mapM parseTRef,
          ← reqNat j "otherAnc"⟩

def parseBtp (j : Json) : Except String Btp := do
  return ⟨⟨← reqStr j "ns", ← reqStr j "name"⟩, ← strArr j "targets", ← reqBool j "full"⟩

def parseState (spec : Bool) (j : Json) : Except String (Cfg × State) := do
  let c ← j.getObjVal? "cfg"
  let cfg : Cfg := ⟨← reqStr c "gc", ← reqStr c "ctlr"⟩
  let classes ← (← reqArr j "classes").mapM fun x => do pure (GwClass.mk (← reqStr x "name") (← reqStr x "ctlr"))
  let gws ← (← reqArr j "gws").mapM fun x => do
    pure (Gw.mk ⟨← reqStr x "ns", ← reqStr x "name"⟩ (← reqStr x "cls") (← reqNat x "age"))
  return (cfg, { classes := classes, gws := gws, routes := ← (← reqArr j "routes").mapM (parseRoute spec),
                 policies := ← (← reqArr j "policies").mapM parsePolicy,
                 btps := ← (← reqArr j "btps").mapM parseBtp,
                 snippets := ← (← reqArr j "snippets").mapM parseNN })

/-! ### model mode -/

def showPRefG (p : PRefG) : String :=
  toString p.idx ++ ">" ++ p.gw.str ++ "#" ++ (p.sect.getD "~")

def showRouteG (r : RouteG) : String :=
  kindName r.kind ++ "/" ++ r.nn.str ++ "|" ++ (if r.valid then "1" else "0") ++ "|" ++
    ";".intercalate (r.parents.map showPRefG)

def showPolicyG (p : PolicyG) : String :=
  p.gvk ++ "/" ++ p.nn.str ++ "|" ++ ";".intercalate (p.targets.map fun t => t.group ++ "," ++ t.kind ++ "," ++ t.name)

def strs (l : List String) : Json := Json.arr (l.map Json.str).toArray

def modelLine (line : String) : String :=
  match Json.parse line >>= fun j => do parseState false (← j.getObjVal? "in") with
  | .error _ => "bad-op"
  | .ok (cfg, s) =>
    let c := buildGraph cfg s
    (Json.mkObj [
      ("disabled", Json.bool (disabled cfg s)),
      ("wc", Json.str (c.winnerClass.getD "")),
      ("ic", strs c.ignoredClasses),
      ("wg", Json.str ((c.winnerGw.map NN.str).getD "")),
      ("ig", strs (c.ignoredGws.map NN.str)),
      ("routes", strs (c.routes.map showRouteG)),
      ("policies", strs (c.policies.map showPolicyG)),
      ("svcs", strs (c.refSvcs.map NN.str)),
      ("btps", strs (c.btps.map NN.str)),
      ("refsnips", strs (c.refSnippets.map NN.str)),
      ("targets", strs ((targets c).map Target.key))]).compress

/-! ### judge mode -/

def parseKept (j : Json) : Except String Kept := do
  return ⟨← reqStr j "obj", ← strArr j "before", ← strArr j "after", ← reqBool j "wrote", ← reqStr j "hb", ← reqStr j "ha"⟩

def parseJIn (j : Json) : Except String JIn := do
  let (cfg, st) ← parseState true (← j.getObjVal? "in")
  let d ← j.getObjVal? "j"
  return { kind := ← reqStr j "k", cfg := cfg, st := st, x := ← strArr d "x", targets := ← strArr d "targets",
           filesA := ← strArr d "filesA", filesB := ← strArr d "filesB",
           runsA := ← strArr d "runsA", runsB := ← strArr d "runsB", runsF := ← strArr d "runsF",
           srunsA := ← strArr d "srunsA", srunsB := ← strArr d "srunsB", srunsF := ← strArr d "srunsF",
           kept := ← (← reqArr d "kept").mapM parseKept, nochange := boolOr d "nochange" false,
           panic := strOr d "panic", phase := strOr d "phase", reqs := ← strArr d "reqs",
           writes := ← strArr d "writes" }

def judgeLine (line : String) : String :=
  match Json.parse line >>= parseJIn with
  | .error _ => "bad-op"
  | .ok j =>
    match judge j with
    | .ok => "ok"
    | .skip w => "skip " ++ w
    | .fail c d => "fail " ++ c ++ " " ++ d

/-! ### clsmodel mode: the class store of a long-lived controller under GatewayClassPredicate -/

def parseCls (j : Json) : Except String GwClass := do return ⟨← reqStr j "name", ← reqStr j "ctlr"⟩

def parseEv (j : Json) : Except String ClsEv :=
  match optField j "put" with
  | some c => do return .put (← parseCls c)
  | none => do return .del (← reqStr j "del")

def clsLine (line : String) : String :=
  match (do
    let j ← Json.parse line
    let start ← (← reqArr j "start").mapM parseCls
    let evs ← (← reqArr j "events").mapM parseEv
    pure (← reqStr j "ctlr", start, evs)) with
  | .error _ => "bad-op"
  | .ok (ctlr, start, evs) =>
    let r := runClasses ctlr (start, start) evs
    (Json.mkObj [("cluster", strs (r.1.map fun c => c.name ++ "=" ++ c.ctlr)),
                 ("store", strs (r.2.map fun c => c.name ++ "=" ++ c.ctlr))]).compress

/-! ### leadmodel mode: the model's requests (`targets ∘ buildGraph`, split by `groupOf`) through the model of the
leader-aware updater (`Leader.run`): line {"k":"leadops","batches":[<flat state of every batch that rebuilt the
graph>],"enableAfter":n}; answer: the targets written by every operation (two `UpdateGroup` per batch, `Enable`
after the n-th batch) -/

def leadLine (line : String) : String :=
  match (do
    let j ← Json.parse line
    let bs ← (← reqArr j "batches").mapM (parseState false)
    pure (bs, ← reqNat j "enableAfter")) with
  | .error _ => "bad-op"
  | .ok (bs, n) =>
    let cfg : Cfg := (bs.head?.map (·.1)).getD ⟨"", ""⟩
    let sts := bs.map (·.2)
    let batches := mkBatches cfg 0 sts
    let tbl := reqTable cfg sts
    let ops := opsOf (batches.take n) ++ Leader.Op.enable [] :: opsOf (batches.drop n)
    let outs := Leader.run Leader.init ops
    (Json.mkObj [("outs", Json.arr (outs.map fun
      | .writes ws => strs ((ws.flatMap (·.2)).map fun q => (tgtOf tbl q).key)
      | .panic => Json.str "panic").toArray)]).compress

def driver (args : List String) : IO UInt32 := do
  let stdin ← IO.getStdin
  let stdout ← IO.getStdout
  match args with
  | ["model"] => NGF.Proto.forEachLine stdin fun l => stdout.putStrLn (modelLine l)
  | ["judge"] => NGF.Proto.forEachLine stdin fun l => stdout.putStrLn (judgeLine l)
  | ["clsmodel"] => NGF.Proto.forEachLine stdin fun l => stdout.putStrLn (clsLine l)
  | ["leadmodel"] => NGF.Proto.forEachLine stdin fun l => stdout.putStrLn (leadLine l)
  | ["fragx"] => NGF.Proto.forEachLine stdin fun l => stdout.putStrLn (NGF.C17Frag.fragxLine l)
  | _ => IO.eprintln "usage: C17 model|judge"; return 2
  return 0

end NGF.Ownership

/-- executable entry point: `ngfdriver_C17 model|judge` -/
def main (args : List String) : IO UInt32 := NGF.Ownership.driver args
