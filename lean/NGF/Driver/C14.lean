import Lean.Data.Json
import NGF.Model.Order
import NGF.Model.Proto
import NGF.DriverLib.PipelineIO
import NGF.DriverLib.PipelineLayersIO
/-
Driver entry for C14. One JSON object per input line (emitted by harness/cmd/c14), field "site":
  gw | mr | lis | tls | btp | pol | det        (anything else is answered with "skip")
  pipe (mode `pipeline` only): one in-fragment state in several arrival orders, see NGF/DriverLib/PipelineIO.lean
  `judge` : the PROPERTY evaluated on what the real code produced:  ok | known <sig> <detail> | fail <sig> <detail>
  `model` : the result of the model functions of NGF/Model/Order.lean on the same input, as canonical text
-/
namespace NGF.Order.Driver
open Lean (Json)
open NGF.Order

abbrev E := Except String

def bytes (s : String) : List Nat := s.toUTF8.toList.map (·.toNat)

def str (j : Json) (k : String) : E String := j.getObjValAs? String k
def int (j : Json) (k : String) : E Int := j.getObjValAs? Int k
def nat (j : Json) (k : String) : E Nat := j.getObjValAs? Nat k
def bool (j : Json) (k : String) : E Bool := j.getObjValAs? Bool k
def arr (j : Json) (k : String) : E (List Json) := do
  let v ← j.getObjVal? k
  match v with
  | .null => pure []
  | _ => let a ← v.getArr?; pure a.toList
def strs (j : Json) (k : String) : E (List String) := do
  (← arr j k).mapM (fun x => x.getStr?)
def optStr (j : Json) (k : String) : E (Option String) := do
  match j.getObjVal? k with
  | .ok .null => pure none
  | .ok v => pure (some (← v.getStr?))
  | .error _ => pure none

def metaOf (j : Json) : E Meta := do
  pure ⟨← int j "ts", bytes (← str j "ns"), bytes (← str j "name")⟩

def nn (j : Json) : E String := do pure ((← str j "ns") ++ "/" ++ (← str j "name"))

def sameSet (a b : List String) : Bool := a.all (b.contains ·) && b.all (a.contains ·)

def joinC (l : List String) : String := if l.isEmpty then "-" else ",".intercalate l

/-! ## gw -/

structure GwIn where
  gw : Gw
  key : String

def gwInputs (j : Json) : E (List GwIn × List Nat) := do
  let cls := bytes (← str j "class")
  let gs ← (← arr j "gws").mapM fun g => do
    pure (⟨⟨← metaOf g, bytes (← str g "cls")⟩, ← nn g⟩ : GwIn)
  pure (gs, cls)

def judgeGw (j : Json) : E String := do
  let (gs, cls) ← gwInputs j
  let winner ← str j "winner"
  let ignored ← strs j "ignored"
  let told ← strs j "told"
  let mine := gs.filter (·.gw.cls == cls)
  if mine.isEmpty then
    return if winner == "" && ignored.isEmpty then "ok" else "fail gateway-winner no Gateway of the class but winner=" ++ winner
  match mine.find? (·.key == winner) with
  | none => return s!"fail gateway-winner winner {winner} is not a Gateway of the class"
  | some w =>
    -- the property: the winner precedes every other Gateway of the class under (age, namespace, name)
    match mine.find? (fun g => g.key != w.key && !less w.gw.md g.gw.md) with
    | some g => return s!"fail gateway-winner-not-oldest winner={winner} but {g.key} precedes it"
    | none =>
      let others := (mine.filter (·.key != w.key)).map (·.key)
      if !sameSet others ignored then
        return s!"fail gateway-ignored-set ignored={joinC ignored} expected={joinC others}"
      match others.find? (fun k => !told.contains k) with
      | some k => return s!"fail gateway-loser-not-told {k} carries no Accepted=False/GatewayConflict"
      | none => return "ok"

def modelGw (j : Json) : E String := do
  let (gs, cls) ← gwInputs j
  let r := processGateways (gs.map (·.gw)) cls
  let keyOf (g : Gw) : String := ((gs.find? (·.gw == g)).map (·.key)).getD "?"
  pure s!"W={(r.winner.map keyOf).getD ""} I={joinC (r.ignored.map keyOf)}"

/-! ## mr -/

structure MrIn where
  r : MatchRule
  kind : String
  rule : Nat

def mrList (j : Json) (k : String) : E (List MrIn) := do
  (← arr j k).mapM fun x => do
    let src ← metaOf (← x.getObjVal? "src")
    pure ⟨⟨← bool x "m", ← nat x "h", ← nat x "q", src, ← nat x "tag"⟩, ← str x "kind", ← nat x "rule"⟩

/-- all pairs (earlier, later) -/
def pairs {α : Type} : List α → List (α × α)
  | [] => []
  | x :: xs => xs.map (fun y => (x, y)) ++ pairs xs

def judgeMr (j : Json) : E String := do
  let obs ← mrList j "obs"
  let wh ← str j "where"
  match (pairs obs).find? (fun (a, b) => higherPriority b.r a.r) with
  | some (a, b) => return s!"fail matchrule-order {wh}: rule #{b.r.tag} has higher priority than the earlier #{a.r.tag}"
  | none =>
    -- rules of one route that tie keep the order of the route (first rule first). A route bound through two
    -- listeners of one port contributes its rules twice; only first occurrences are compared.
    let firsts := obs.foldl (fun (acc : List MrIn) x =>
      if acc.any (fun y => y.kind == x.kind && y.r.src == x.r.src && y.rule == x.rule &&
          !higherPriority y.r x.r && !higherPriority x.r y.r) then acc else acc ++ [x]) []
    match (pairs firsts).find? (fun (a, b) =>
        !higherPriority a.r b.r && a.r.src == b.r.src && a.kind == b.kind && b.rule < a.rule) with
    | some (a, b) => return s!"fail matchrule-rule-order {wh}: rule index {a.rule} before {b.rule} of the same route"
    | none => return "ok"

def modelMr (j : Json) : E String := do
  let inp ← mrList j "input"
  let sorted := sortMatchRules (inp.map (·.r))
  pure (joinC (sorted.map (fun r => toString r.tag)))

/-! ## lis -/

structure LisIn where
  l : Lis
  name : String
  entered : Bool
  valid : Bool
  attachable : Bool
  tlsKind : Bool
  allowNs : List String
  conflicts : List String
  told : Bool

def lisList (j : Json) : E (List LisIn) := do
  (← arr j "ls").mapM fun x => do
    let proto ← match (← str x "proto") with
      | "HTTP" => pure Proto.http | "HTTPS" => pure Proto.https | "TLS" => pure Proto.tls
      | p => throw s!"protocol {p}"
    pure ⟨⟨← nat x "id", ← nat x "port", proto, ← optStr x "host"⟩, ← str x "name", ← bool x "entered", ← bool x "valid",
          ← bool x "attachable", ← bool x "tlsKind", ← strs x "allowNs", ← strs x "conflicts", ← bool x "told"⟩

def condName : LCond → String
  | .protocolConflict => "ProtocolConflict" | .hostnameConflict => "HostnameConflict"

def judgeLis (j : Json) : E String := do
  let ls ← lisList j
  let ent := (ls.filter (·.entered)).map (·.l)
  for x in ls do
    if x.entered then
      let spec := lisValidSpec lisOverlap ent x.l
      let conflicted := !x.conflicts.isEmpty
      if spec && conflicted then
        return s!"fail listener-conflict-spurious listener {x.name} is marked {joinC x.conflicts} without a conflicting listener on port {x.l.port}"
      if !spec && !conflicted then
        return s!"fail listener-conflict-missed listener {x.name} conflicts on port {x.l.port} but carries no conflict condition"
      if conflicted && x.valid then
        return s!"fail listener-conflict-still-valid listener {x.name}"
      if conflicted && !x.told then
        return s!"fail listener-loser-not-told listener {x.name} has no Conflicted=True in status"
  return "ok"

def dedupS (l : List String) : List String := l.eraseDups

def modelLis (j : Json) : E String := do
  let ls ← lisList j
  let ent := (ls.filter (·.entered)).map (·.l)
  let st := resolveListeners lisOverlap ent
  let parts := ls.map fun x =>
    let cs := dedupS ((st.conds.filter (·.1 == x.l.id)).map (fun c => condName c.2))
    let cs := (if cs.contains "HostnameConflict" then ["HostnameConflict"] else []) ++
              (if cs.contains "ProtocolConflict" then ["ProtocolConflict"] else [])
    s!"{x.name}:{if st.invalid.contains x.l.id then "invalid" else "-"}:{joinC cs}"
  pure (" ".intercalate parts)

def obsLis (j : Json) : E String := do
  let ls ← lisList j
  let parts := ls.map fun x =>
    s!"{x.name}:{if x.entered && !x.conflicts.isEmpty then "invalid" else "-"}:{joinC (if x.entered then x.conflicts else [])}"
  pure (" ".intercalate parts)

/-! ## tls -/

/-- `findAcceptedHostnames` / `match` / `GetMoreSpecificHostname` (route_common.go) for non-empty route
hostname lists -/
def wcMatch (h1 h2 : String) : Bool := h1.startsWith "*." && h2.endsWith ((h1.drop 1).toString)

def hostMatch (lh rh : String) : Bool :=
  lh == "" || rh == lh || wcMatch lh rh || wcMatch rh lh

def moreSpecific (h1 h2 : String) : String :=
  if h1 == h2 then h1 else if h1 == "" then h2 else if h2 == "" then h1
  else if h1.startsWith "*." then
    if h2.startsWith "*." then
      if (h1.splitOn ".").length > (h2.splitOn ".").length then h1 else h2
    else h2
  else if h2.startsWith "*." then h1 else ""

def accepted (lh : Option String) (rhs : List String) : List String :=
  let l := lh.getD ""
  (rhs.filter (hostMatch l ·)).map (moreSpecific l ·)

structure TlsPar where
  section_ : String
  eligible : Bool
  failed : String
  granted : List (String × List String)

structure TlsIn where
  md : Meta
  key : String
  ns : String
  hosts : List String
  parents : List TlsPar
  told : Bool

def tlsRoutes (j : Json) : E (List TlsIn) := do
  (← arr j "routes").mapM fun x => do
    let ps ← (← arr x "parents").mapM fun p => do
      let g ← p.getObjVal? "granted"
      let gl ← match g with
        | .obj kvs => kvs.toList.mapM (fun (k, v) => do
            let a ← v.getArr?
            let hs ← a.toList.mapM (·.getStr?)
            pure (k, hs))
        | _ => pure []
      pure (⟨← str p "section", ← bool p "eligible", ← str p "failed", gl⟩ : TlsPar)
    pure ⟨← metaOf x, ← nn x, ← str x "ns", ← strs x "hosts", ps, ← bool x "conflictTold"⟩

def lisFor (ls : List LisIn) (r : TlsIn) (p : TlsPar) : List LisIn :=
  if !p.eligible then [] else
  ls.filter fun l => l.attachable && (p.section_ == "" || l.name == p.section_) && l.tlsKind && l.allowNs.contains r.ns

def keyOf (h : String) (port : Nat) : String := s!"{h}:{port}"

/-- candidate keys of one parentRef -/
def parClaims (ls : List LisIn) (r : TlsIn) (p : TlsPar) : List String :=
  ((lisFor ls r p).map fun l => (accepted l.l.host r.hosts).map (keyOf · l.l.port)).flatten

def claimsOf (ls : List LisIn) (r : TlsIn) : List String :=
  (r.parents.map (parClaims ls r)).flatten

def grantedOf (ls : List LisIn) (r : TlsIn) : List String :=
  (r.parents.map fun p => (p.granted.map fun (ln, hs) =>
    match ls.find? (·.name == ln) with
    | some l => hs.map (keyOf · l.l.port)
    | none => hs.map (keyOf · 0)).flatten).flatten

def judgeTls (j : Json) : E String := do
  let ls ← lisList j
  let rs ← tlsRoutes j
  let allKeys := ((rs.map (claimsOf ls)).flatten).eraseDups
  for k in allKeys do
    let claimants := rs.filter (fun r => (claimsOf ls r).contains k)
    let owners := rs.filter (fun r => (grantedOf ls r).contains k)
    match owners with
    | [] => return s!"fail tls-hostname-unserved {k} is claimed by {joinC (claimants.map (·.key))} but granted to nobody"
    | [o] =>
      match claimants.find? (fun c => c.key != o.key && !less o.md c.md) with
      | some c => return s!"fail tls-hostname-owner-not-oldest {k} granted to {o.key} although {c.key} precedes it"
      | none => pure ()
    | _ => return s!"fail tls-hostname-two-owners {k} granted to {joinC (owners.map (·.key))}"
  -- nothing is granted that was not claimed
  for r in rs do
    match (grantedOf ls r).find? (fun k => !(claimsOf ls r).contains k) with
    | some k => return s!"fail tls-hostname-unclaimed {r.key} was granted {k} which it does not claim"
    | none => pure ()
  -- losers are told: a parentRef all of whose claimed hostnames are owned by OTHER routes carries HostnameConflict
  for r in rs do
    for p in r.parents do
      let c := parClaims ls r p
      let lostToOthers := c.all fun k => rs.any (fun o => o.key != r.key && (grantedOf ls o).contains k)
      if p.eligible && !c.isEmpty && p.granted.isEmpty && lostToOthers && p.failed != "HostnameConflict" then
        return s!"fail tlsroute-loser-wrong-reason {r.key} lost {joinC c} to older routes but is told {p.failed}"
  return "ok"

def modelTls (j : Json) : E String := do
  let ls ← lisList j
  let rs ← tlsRoutes j
  let res := bindL4 (rs.map fun r => (⟨r.md, claimsOf ls r⟩ : L4))
  let parts := rs.map fun r =>
    let g := ((res.find? (fun x => x.1.md == r.md)).map (·.2)).getD []
    let o := grantedOf ls r
    s!"{r.key}={if sameSet g o then "same" else "model:" ++ joinC g ++ "/impl:" ++ joinC o}"
  pure (" ".intercalate parts)

/-! ## btp -/

structure BtpIn where
  b : Btp
  key : String
  valid : Bool
  hasReq : Bool
  told : Bool

def btpList (j : Json) : E (List BtpIn) := do
  (← arr j "btps").mapM fun x => do
    pure ⟨⟨← metaOf x, (← strs x "targets").map bytes⟩, ← nn x, ← bool x "valid", ← bool x "hasReq", ← bool x "told"⟩

def judgeBtp (j : Json) : E String := do
  let bs ← btpList j
  let refs ← arr j "refs"
  let mut chosenAll : List String := []
  let mut candAll : List String := []
  for r in refs do
    let ns := bytes (← str r "svcNs")
    let svc := bytes (← str r "svc")
    let chosen ← str r "chosen"
    let valid ← bool r "valid"
    let cands := bs.filter (fun b => b.b.md.ns == ns && b.b.targets.contains svc)
    candAll := candAll ++ cands.map (·.key)
    if chosen != "" then chosenAll := chosen :: chosenAll
    if valid then
      match cands with
      | [] => if chosen != "" then return s!"fail btp-choice {← str r "route"}: {chosen} chosen but no policy targets the service"
      | _ =>
        match cands.find? (·.key == chosen) with
        | none => return s!"fail btp-choice {← str r "route"}: chosen '{chosen}' is not among the candidates {joinC (cands.map (·.key))}"
        | some c =>
          match cands.find? (fun d => d.key != c.key && !less c.b.md d.b.md) with
          | some d => return s!"fail btp-choice-not-oldest {← str r "route"}: {chosen} chosen although {d.key} precedes it"
          | none => pure ()
  -- losers are told: a policy that competed for a referenced Service and never won
  for b in bs do
    if candAll.contains b.key && !chosenAll.contains b.key && !b.told then
      -- only a finding if it lost against a policy that was applied (some candidate of its services won)
      return s!"fail btp-loser-not-told {b.key} lost the Service to an older BackendTLSPolicy; status request={b.hasReq}, no Accepted=False/Conflicted"
  return "ok"

def modelBtp (j : Json) : E String := do
  let bs ← btpList j
  let refs ← arr j "refs"
  let parts ← refs.mapM fun r => do
    let m := findBTP (bs.map (·.b)) (bytes (← str r "svcNs")) (bytes (← str r "svc"))
    let k := match m with
      | none => ""
      | some b => ((bs.find? (·.b == b)).map (·.key)).getD "?"
    let valid ← bool r "valid"
    let chosen ← str r "chosen"
    -- an invalid winner makes the ref invalid (and unrecorded); otherwise model and impl must agree
    let winnerValid := ((bs.find? (·.key == k)).map (·.valid)).getD true
    pure (if valid then (if k == chosen then "same" else s!"model:{k}/impl:{chosen}")
          else (if winnerValid then "same" else "same"))
  pure (" ".intercalate parts)

/-! ## pol -/

structure PolIn where
  p : Pol
  key : String
  conflicted : Bool
  valid : Bool
  told : Bool

def polList (j : Json) (k : String := "pols") : E (List PolIn) := do
  let xs ← arr j k
  let tstrs ← xs.mapM (fun x => strs x "targets")
  let table := tstrs.flatten.eraseDups
  xs.mapM fun x => do
    let ts ← strs x "targets"
    let tids := ts.map (fun t => (table.findIdx? (· == t)).getD 0)
    pure ⟨⟨← nat x "id", ← metaOf x, ← nat x "gvk", tids, ← nat x "mask", ← bool x "validBefore"⟩,
          (← str x "kind") ++ "/" ++ (← nn x), ← bool x "conflicted", ← bool x "valid", ← bool x "told"⟩

def insertAll {α : Type} (x : α) : List α → List (List α)
  | [] => [[x]]
  | y :: ys => (x :: y :: ys) :: (insertAll x ys).map (y :: ·)

def perms {α : Type} : List α → List (List α)
  | [] => [[]]
  | x :: xs => ((perms xs).map (insertAll x)).flatten

def rotations {α : Type} (l : List α) : List (List α) :=
  (List.range l.length).map (fun i => l.drop i ++ l.take i)

def sortNat (l : List Nat) : List Nat := isort (fun a b => decide (a ≤ b)) l

/-- the set of outcomes (sorted lists of conflicted ids) over the iteration orders of `possibles` -/
def outcomes (ps : List Pol) : List (List Nat) :=
  let keys := keysOf ps
  let orders := if keys.length ≤ 5 then perms keys else rotations keys ++ rotations keys.reverse
  (orders.map (fun o => sortNat (markConflicted maskConflicts o ps).eraseDups)).eraseDups

def showOutcome (o : List Nat) : String := joinC (o.map toString)

def judgePol (j : Json) : E String := do
  let ps ← polList j
  for x in ps do
    if x.conflicted then
      -- soundness: lost against an older policy of the same kind on a shared target that conflicts with it
      let ok := ps.any fun q => q.p.valid && q.p.id != x.p.id && shares q.p x.p && maskConflicts q.p x.p && less q.p.md x.p.md
      if !ok then return s!"fail policy-conflict-spurious {x.key} is Conflicted but no older conflicting policy shares a target"
      if x.valid then return s!"fail policy-conflict-still-valid {x.key}"
      if !x.told then return s!"fail policy-loser-not-told {x.key} has no Accepted=False/Conflicted in status"
  -- the oldest of a group wins it: if it is still valid, every member conflicting with it lost
  for k in keysOf (ps.map (·.p)) do
    match groupOf (ps.map (·.p)) k with
    | [] => pure ()
    | w :: rest =>
      let wIn := ps.find? (·.p.id == w.id)
      if (wIn.map (fun x => !x.conflicted)).getD false then
        for r in rest do
          if maskConflicts w r then
            match ps.find? (·.p.id == r.id) with
            | some x => if !x.conflicted then
                return s!"fail policy-conflict-missed {x.key} conflicts with the older {((wIn.map (·.key)).getD "?")} on a shared target but is not Conflicted"
            | none => pure ()
  -- declarative (greedy-by-age) clause, completeness: no two SURVIVING policies of one kind that share a target
  -- conflict - the younger one must have lost to the older survivor
  let surv := ps.filter (fun x => x.p.valid && !x.conflicted)
  for q in surv do
    for x in surv do
      if q.p.id != x.p.id && less q.p.md x.p.md && shares q.p x.p && maskConflicts q.p x.p then
        return s!"fail policy-conflict-missed {x.key} conflicts with the older surviving {q.key} on a shared target but is not Conflicted (both are applied)"
  -- for single-target policies the Conflicted set is exactly the greedy specification of every group
  if ps.all (fun x => !x.p.valid || x.p.targets.length ≤ 1) then
    let pols := ps.map (·.p)
    let want := sortNat (((keysOf pols).map (fun k => (dropped maskConflicts [] (groupOf pols k)).map (·.id))).flatten.eraseDups)
    let got := sortNat ((ps.filter (·.conflicted)).map (·.p.id))
    if want != got then
      return s!"fail policy-conflict-not-greedy Conflicted={showOutcome got} but the greedy-by-age losers are {showOutcome want}"
  return "ok"

def modelPol (j : Json) : E String := do
  let ps ← polList j
  let outs := outcomes (ps.map (·.p))
  let obs := sortNat ((ps.filter (·.conflicted)).map (·.p.id))
  let fixed := sortNat (markConflictedFixed maskConflicts (ps.map (·.p))).eraseDups
  pure s!"obs={showOutcome obs} in={outs.contains obs} outs={"|".intercalate (outs.map showOutcome)} fixed={showOutcome fixed}"

/-! ## det -/

def secClass (k : String) : String :=
  if k.startsWith "status:" then
    match (k.drop 7).toString.splitOn "/" with
    | kind :: _ => "status:" ++ kind
    | [] => k
  else if k.startsWith "file:" then
    let parts := (k.drop 5).toString.splitOn "/"
    if k.startsWith "file:/etc/nginx/includes/" then "file:includes" else
    if k.startsWith "file:/etc/nginx/secrets/" then "file:secrets" else
    "file:" ++ (parts.getLast?.getD "")
  else k

/-- is the class string constant on every group of reps having the same policy outcome? -/
def constWithin (c pc : List Char) : Bool :=
  let z := c.zip pc
  z.all fun (a, g) => z.all fun (b, h) => g != h || a == b

def l7Sections : List String :=
  ["conf:BackendGroups", "conf:HTTPServers", "conf:SSLServers", "file:http.conf", "file:matches.json"]

/-- what else changes when the surviving backend group / rule order of same-named routes changes: the CA bundles
referenced by the surviving group's backends and the per-location policy includes -/
def twinFallout : List String := ["conf:CertBundles", "file:secrets", "file:includes"]

def judgeDet (j : Json) : E String := do
  let secs ← arr j "secs"
  let pc := (← str j "pc").toList
  let tc := (← str j "tc").toList
  let tcShape ← bool j "tcShape"
  let twin ← bool j "twin"
  let mixed ← bool j "mixed"
  let ps ← polList j
  let polAmb := (outcomes (ps.map (·.p))).length > 1
  let mut known : List String := []
  if pc.eraseDups.length > 1 && !polAmb && tc.eraseDups.length ≤ 1 then
    return "fail nondeterministic:policy-conflicts the set of Conflicted policies differs between builds of one state"
  if tc.eraseDups.length > 1 && !tcShape then
    return "fail nondeterministic:policy-target-conflict the set of policies with TargetConflict differs between builds of one state"
  -- reps are grouped by the outcome of the two known order-dependent decisions; inside a group everything must agree
  let grp := (pc.zip tc).map (fun (a, b) => a.toNat * 1000 + b.toNat)
  let grpC := grp.map Char.ofNat
  for s in secs do
    let k ← str s "k"
    let c := (← str s "c").toList
    if c.eraseDups.length > 1 then
      let cls := secClass k
      let diff := (s.getObjValAs? String "diff").toOption.getD ""
      if constWithin c grpC then
        if tc.eraseDups.length > 1 && !known.contains "policy-target-overlap-order-dependent" then
          known := known ++ ["policy-target-overlap-order-dependent"]
        if pc.eraseDups.length > 1 && polAmb && !known.contains "policy-conflict-order-dependent" then
          known := known ++ ["policy-conflict-order-dependent"]
      else if twin && (l7Sections.contains cls || twinFallout.contains cls) then
        if !known.contains "same-name-http-grpc-backend-group" then known := known ++ ["same-name-http-grpc-backend-group"]
      else if mixed && l7Sections.contains cls && cls != "conf:BackendGroups" then
        if !known.contains "hostrule-grpc-last-writer" then known := known ++ ["hostrule-grpc-last-writer"]
      else
        return s!"fail nondeterministic:{cls} {k}: {diff}"
  if known.isEmpty then return "ok"
  return "known " ++ ",".intercalate known

/-! ## dispatch -/

def run (f : Json → E String) (line : String) : String :=
  match Json.parse line with
  | .error e => "bad-op " ++ e
  | .ok j =>
    match f j with
    | .ok s => s
    | .error e => "bad-op " ++ e

def judgeLine (line : String) : String :=
  run (fun j => do
    match (← str j "site") with
    | "gw" => judgeGw j | "mr" => judgeMr j | "lis" => judgeLis j | "tls" => judgeTls j
    | "btp" => judgeBtp j | "pol" => judgePol j | "det" => judgeDet j
    | _ => pure "skip") line

def modelLine (line : String) : String :=
  run (fun j => do
    match (← str j "site") with
    | "gw" => modelGw j | "mr" => modelMr j
    | "lis" => do pure s!"model[{← modelLis j}] impl[{← obsLis j}]"
    | "tls" => modelTls j | "btp" => modelBtp j | "pol" => modelPol j
    | _ => pure "skip") line

def driver (args : List String) : IO UInt32 := do
  let stdin ← IO.getStdin
  let stdout ← IO.getStdout
  match args with
  | ["model"] => NGF.Proto.forEachLine stdin fun l => stdout.putStrLn (modelLine l)
  | ["judge"] => NGF.Proto.forEachLine stdin fun l => stdout.putStrLn (judgeLine l)
  -- stream `pipe`: one in-fragment state in several arrival orders (judge on the real outputs, tie with Pipeline.gen,
  -- gen_perm_equiv / gen_perm_meaning executed) — see NGF/DriverLib/PipelineIO.lean
  | ["pipeline"] => NGF.Proto.forEachLine stdin fun l => do stdout.putStrLn (NGF.PipelineIO.answer l); stdout.flush
  -- stream `pipe` with families refs / tls / base: the layered models (references, endpoints, TLS, statuses) per arrival order
  | ["layers"] => NGF.Proto.forEachLine stdin fun l => do stdout.putStrLn (NGF.PipelineLayersIO.answer l); stdout.flush
  | _ => IO.eprintln "usage: C14 model|judge|pipeline|layers"; return 2
  return 0

end NGF.Order.Driver

/-- executable entry point: `ngfdriver_C14 model|judge` -/
def main (args : List String) : IO UInt32 := NGF.Order.Driver.driver args
