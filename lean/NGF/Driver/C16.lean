import Lean.Data.Json
import NGF.Model.TlsBind
import NGF.Model.TlsJudge
import NGF.Model.PipelineTlsTie
import NGF.DriverLib.PipelineIO
import NGF.Model.Proto
/-
Driver entry for C16. Input lines are the JSON objects written by harness/c16.
  `judge` : pipeline line `{"in":…,"obs":{…,"files":[…]}}` → `ok` | `skip <why>` | `fail <sig>;<sig>… :: <details>`
            (the property evaluated on the REAL generated files and the input objects)
  `model` : pipeline line → `ok` | `skip <why>` | `diff <what>;…`  (model recomputes listeners' validity, accepted
            hostnames, SSL servers, key pairs, policy validity/selection, mismatch, VerifyTLS, cert bundles from
            "in" (+ the attachment facts of the graph) and compares with what the real code produced)
  `loop`  : direct-call line `{"k":kind,…,"out":…}` → `ok` | `diff <model value>`
  `pipeline` : fragment line `{"site":"frag","flat":…,"files":{http,stream,matches},"secrets":[…],"sfiles":[…]}` → JSON object
            (translation validation of `PipelineTls.genT` against the real http.conf and the real secret files,
            NGF.PipelineTlsTie.tieT; the theorems of Props/C16Pipeline executed on the scenario)
Undecodable input answers `bad-op`.
-/
namespace NGF.TlsDriver
open Lean (Json)
open NGF.Tls NGF.TlsJudge

/-! ### decoding -/

def optField (j : Json) (k : String) : Option Json :=
  match j.getObjVal? k with
  | .ok v => if v.isNull then none else some v
  | .error _ => none

def reqStr (j : Json) (k : String) : Except String (List Char) := do return (← (← j.getObjVal? k).getStr?).toList
def optStr (j : Json) (k : String) : Except String (List Char) :=
  match optField j k with
  | none => pure []
  | some v => do return (← v.getStr?).toList
def reqNat (j : Json) (k : String) : Except String Nat := do (← j.getObjVal? k).getNat?
def reqBool (j : Json) (k : String) : Except String Bool := do (← j.getObjVal? k).getBool?
def reqArr (j : Json) (k : String) : Except String (List Json) := do
  match optField j k with
  | some v => return (← v.getArr?).toList
  | none => pure []
def strList (j : Json) (k : String) : Except String (List (List Char)) := do
  (← reqArr j k).mapM fun v => do return (← v.getStr?).toList
def strLists (j : Json) (k : String) : Except String (List (List (List Char))) := do
  (← reqArr j k).mapM fun v => do
    if v.isNull then pure [] else (← v.getArr?).toList.mapM fun w => do return (← w.getStr?).toList

def optNN (j : Json) (k : String) : Except String (Option (Name × Name)) :=
  match optField j k with
  | none => pure none
  | some v => do return some (← reqStr v "ns", ← reqStr v "name")

def parseSecret (j : Json) : Except String SecretObj := do
  return { ns := ← reqStr j "ns", name := ← reqStr j "name", isTLS := (← reqStr j "type") = "kubernetes.io/tls".toList,
           pairOK := ← reqBool j "pairOK", cert := ← reqStr j "cert", key := ← reqStr j "key" }

def parseGrant (j : Json) : Except String Grant := do
  let froms ← (← reqArr j "from").mapM fun f => do
    return (⟨← optStr f "group", ← optStr f "kind", ← optStr f "ns"⟩ : GrantFrom)
  let tos ← (← reqArr j "to").mapM fun t => do
    return (⟨← optStr t "group", ← optStr t "kind", ← optStr t "name"⟩ : GrantTo)
  return ⟨← reqStr j "ns", froms, tos⟩

def parseCM (j : Json) : Except String CMObj := do
  return ⟨← reqStr j "ns", ← reqStr j "name", ← reqBool j "hasCA", ← reqBool j "caOK", ← reqStr j "ca"⟩

def parseBTP (id : Nat) (j : Json) : Except String BTP := do
  let refs ← (← reqArr j "refs").mapM fun r => do
    return (⟨← optStr r "group", ← optStr r "kind", ← optStr r "name"⟩ : CARef)
  let wk ← match optField j "wk" with
    | none => pure none
    | some v => do pure (some (← v.getStr?).toList)
  return { id := id, ns := ← reqStr j "ns", name := ← reqStr j "name", ts := (← (← j.getObjVal? "ts").getInt?).toNat,
           targets := ← strList j "targets", hostname := ← reqStr j "host", hostOK := ← reqBool j "hostOK",
           refs := refs, wk := wk, full := ← reqBool j "full" }

structure InListener where
  name : Name
  port : Nat
  proto : Name
  host : Host
  nrefs : Nat
  refKind : Name
  refGroup : Name
  refNS : Name
  refName : Name

def parseInListener (j : Json) : Except String InListener := do
  return ⟨← reqStr j "name", ← reqNat j "port", ← reqStr j "proto", ← optStr j "host", ← reqNat j "nrefs",
          ← optStr j "refKind", ← optStr j "refGroup", ← optStr j "refNS", ← optStr j "refName"⟩

structure ObsListener where
  name : Name
  valid : Bool
  resolved : Option (Name × Name)
  otherInvalid : Bool
  nroutes : Nat
  routeHosts : List (List Host)
  accepted : List (List Host)

def parseObsListener (j : Json) : Except String ObsListener := do
  return ⟨← reqStr j "name", ← reqBool j "valid", ← optNN j "resolved", ← reqBool j "otherInvalid",
          ← reqNat j "nroutes", ← strLists j "routeHosts", ← strLists j "accepted"⟩

structure Input where
  gwNs : Name
  listeners : List InListener
  secrets : List SecretObj
  grants : List Grant
  services : List JService
  cms : List CMObj
  btps : List BTP

def enumFrom {α} (n : Nat) : List α → List (Nat × α)
  | [] => []
  | a :: as => (n, a) :: enumFrom (n + 1) as

def parseInput (j : Json) : Except String (Option Input) := do
  match optField j "gw" with
  | none => return none
  | some gw =>
    let svcs ← (← reqArr j "services").mapM fun s => do
      return (⟨← reqStr s "ns", ← reqStr s "name", ← (← reqArr s "ports").mapM (·.getNat?)⟩ : JService)
    return some {
      gwNs := ← reqStr gw "ns",
      listeners := ← (← reqArr j "listeners").mapM parseInListener,
      secrets := ← (← reqArr j "secrets").mapM parseSecret,
      grants := ← (← reqArr j "grants").mapM parseGrant,
      services := svcs,
      cms := ← (← reqArr j "cms").mapM parseCM,
      btps := ← (enumFrom 0 (← reqArr j "btps")).mapM fun (i, b) => parseBTP i b }

def parseFiles (obs : Json) : Except String (List JFile) := do
  (← reqArr obs "files").mapM fun f => do
    return (⟨← reqStr f "path", ← reqNat f "type", ← reqStr f "content"⟩ : JFile)

def showL (l : List Char) : String := String.ofList l

/-! ### judge -/

def judgeLine (line : String) : Except String String := do
  let j ← Json.parse line
  let obs ← j.getObjVal? "obs"
  if (optField obs "panic").isSome then return "skip panic"
  if (← reqBool obs "noconf") then return "skip noconf"
  let some inp ← parseInput (← j.getObjVal? "in") | return "skip nogw"
  let obsLs ← (← reqArr obs "listeners").mapM parseObsListener
  let ls : List JListener := inp.listeners.map fun l =>
    let (other, acc) := match obsLs.find? (·.name = l.name) with
      | some o => (o.otherInvalid, o.accepted.flatten)
      | none => (true, [])
    ⟨l.name, l.port, l.proto, l.host, l.nrefs, l.refKind, l.refGroup, l.refNS, l.refName, other, acc⟩
  let groups ← (← reqArr obs "groups").mapM fun g => do
    let name := (← reqStr g "name").map fun c => if c = '-' then '_' else c   -- convertStringToSafeVariableName
    let ups ← (← reqArr g "backends").mapM fun b => optStr b "up"
    return (name, ups)
  let ji : JIn := ⟨inp.gwNs, ls, inp.secrets, inp.grants, inp.services, inp.cms, inp.btps, groups⟩
  let fails := judge ji (← parseFiles obs)
  if fails.isEmpty then return "ok"
  return "fail " ++ ";".intercalate (fails.map (·.signature)).eraseDups ++ " :: " ++
    " | ".intercalate ((fails.take 4).map fun f => f.signature ++ " " ++ f.detail)

/-! ### model vs implementation on pipeline lines -/

def toModelListener (inp : Input) (l : InListener) (o : ObsListener) : Listener :=
  let ref : CertRef := ⟨l.nrefs, l.refKind = [] || l.refKind = "Secret".toList, l.refGroup = [], l.refNS, l.refName⟩
  { name := l.name, port := l.port, https := l.proto = "HTTPS".toList, host := l.host,
    secret := (l.refNS, l.refName), res := resolveRef inp.grants inp.secrets inp.gwNs ref,
    otherValid := !o.otherInvalid, nroutes := o.nroutes, routeHosts := o.routeHosts }

def serverKey (s : Server) : String :=
  s!"{s.port}/{showL s.host}/{s.isDefault}/{showL (s.keyPair.getD ['-'])}"

def sortStrs (l : List String) : List String := l.mergeSort (fun a b => a ≤ b)

def groupNameOf (route : List Char) (idx : Nat) : List Char :=
  -- "http/ns/name" → group_<ns>__<name>_rule<idx>
  match (showL route).splitOn "/" with
  | [_, ns, name] => s!"group_{ns}__{name}_rule{idx}".toList
  | _ => []

def verifyKey : Option Verify → String
  | none => "none"
  | some v => s!"{showL v.bundleId}|{showL v.hostname}|{showL v.rootCAPath}"

def modelLine (line : String) : Except String String := do
  let j ← Json.parse line
  let obs ← j.getObjVal? "obs"
  if (optField obs "panic").isSome then return "skip panic"
  if (← reqBool obs "noconf") then return "skip noconf"
  let some inp ← parseInput (← j.getObjVal? "in") | return "skip nogw"
  let obsLs ← (← reqArr obs "listeners").mapM parseObsListener
  if obsLs.isEmpty && !inp.listeners.isEmpty then return "skip gateway-invalid"
  let mut diffs : List String := []
  -- 1. listeners
  let mut mls : List Listener := []
  for l in inp.listeners do
    let some o := obsLs.find? (·.name = l.name) | diffs := diffs ++ [s!"listener {showL l.name} not in graph"]
    let ml := toModelListener inp l o
    mls := mls ++ [ml]
    if ml.https then
      if ml.valid != o.valid then
        diffs := diffs ++ [s!"listener {showL l.name}: valid model={ml.valid} impl={o.valid} res={repr ml.res}"]
      if ml.valid && o.resolved != some ml.secret then
        diffs := diffs ++ [s!"listener {showL l.name}: resolved secret differs"]
    -- 2. accepted hostnames, route by route
    let acc := ml.routeHosts.map (findAccepted ml.host)
    if acc != o.accepted then
      diffs := diffs ++ [s!"listener {showL l.name}: accepted hostnames model={acc.map (·.map showL)} impl={o.accepted.map (·.map showL)}"]
  -- 3. SSL servers
  let implServers ← (← reqArr obs "servers").mapM fun s => do
    let kp ← match optField s "kp" with
      | none => pure none
      | some v => do pure (some (← v.getStr?).toList)
    return (⟨← optStr s "host", ← reqNat s "port", ← reqBool s "def", kp⟩ : Server)
  let ms := sortStrs ((buildSSLServers mls).map serverKey)
  let is := sortStrs (implServers.map serverKey)
  if ms != is then diffs := diffs ++ [s!"ssl servers model={ms} impl={is}"]
  -- 4. key pairs
  let implKPs ← (← reqArr obs "keyPairs").mapM fun k => do
    return (⟨← reqStr k "id", ← reqStr k "cert", ← reqStr k "key"⟩ : KeyPair)
  let mkps := buildSSLKeyPairs inp.secrets mls
  let kpKey := fun (k : KeyPair) => s!"{showL k.id}:{hash k.cert}:{hash k.key}"
  if sortStrs (mkps.map kpKey) != sortStrs (implKPs.map kpKey) then
    diffs := diffs ++ [s!"key pairs model={mkps.map (showL ·.id)} impl={implKPs.map (showL ·.id)} (or bytes differ)"]
  -- 5. policies
  for ob in (← reqArr obs "btps") do
    let ns ← reqStr ob "ns"
    let name ← reqStr ob "name"
    match inp.btps.find? (fun b => b.ns = ns && b.name = name) with
    | none => diffs := diffs ++ [s!"policy {showL name} unknown"]
    | some b =>
      let (v, ig) := validateBTP inp.cms b
      if v != (← reqBool ob "valid") || ig != (← reqBool ob "ignored") || b.caName inp.cms != (← optStr ob "ca") then
        diffs := diffs ++ [s!"policy {showL ns}/{showL name}: model valid={v} ignored={ig} ca={showL (b.caName inp.cms)}"]
  -- 5b. processBackendTLSPolicies tracks EVERY policy (an ignored one as invalid)
  let obsBtps ← (← reqArr obs "btps").mapM fun ob => do return (← reqStr ob "ns", ← reqStr ob "name")
  for b in inp.btps do
    if !obsBtps.contains (b.ns, b.name) then
      diffs := diffs ++ [s!"policy {showL b.ns}/{showL b.name} is not tracked by the graph (model: valid={(validateBTP inp.cms b).1} ignored={(validateBTP inp.cms b).2})"]
  let procs := processBtp inp.cms inp.btps
  -- 6. rules: selection, mismatch, and 7. VerifyTLS of the backend groups
  let groups ← reqArr obs "groups"
  let mut mismatchCount : List (List Char × Nat) := []
  let mut bundleIds : List (List Char) := []
  for r in (← reqArr obs "rules") do
    let route ← reqStr r "route"
    let idx ← reqNat r "idx"
    let refs ← reqArr r "refs"
    let mut pols : List (Option BTP) := []
    for ref in refs do
      let implBtp ← optNN ref "btp"
      let port ← reqNat ref "port"
      let sel ← match ← optNN ref "svc" with
        | some (ns, name) =>
          if port = 0 then pure none else
          pure ((findBTP inp.btps ns name).filter (·.valid inp.cms))
        | none => pure none
      if sel.map (fun b => (b.ns, b.name)) != implBtp then
        diffs := diffs ++ [s!"rule {showL route}#{idx}: selected policy model={sel.map (showL ·.name)} impl={implBtp.map (showL ·.2)}"]
      -- createBackendRef: a selected policy that is not valid (invalid or ignored) invalidates the backendRef
      match ← optNN ref "svc" with
      | some (ns, name) =>
        if port != 0 && backendTLSOf procs ns name = .invalid && (← reqBool ref "valid") then
          diffs := diffs ++ [s!"rule {showL route}#{idx}: Service {showL ns}/{showL name} is targeted by an invalid or ignored policy (model: backendRef invalid) but the backendRef is valid"]
      | none => pure ()
      pols := pols ++ [sel]
    let mm := refs.length > 1 && mismatch pols
    if mm then
      mismatchCount := match mismatchCount.find? (·.1 = route) with
        | some _ => mismatchCount.map fun (k, n) => if k = route then (k, n + 1) else (k, n)
        | none => mismatchCount ++ [(route, 1)]
      for ref in refs do
        if (← reqBool ref "valid") then diffs := diffs ++ [s!"rule {showL route}#{idx}: model mismatch but a backend is valid"]
    -- backend group
    let gname := groupNameOf route idx
    for g in groups do
      if (← reqStr g "name") = gname then
        let bs ← reqArr g "backends"
        for (b, pol) in bs.zip pols do
          let implV ← match optField b "verify" with
            | none => pure none
            | some v => do pure (some (⟨← optStr v "bundle", ← optStr v "host", ← optStr v "root"⟩ : Verify))
          let mv := convertBackendTLS inp.cms pol
          if mv != implV then
            diffs := diffs ++ [s!"group {showL gname}: VerifyTLS model={verifyKey mv} impl={verifyKey implV}"]
          if (← reqBool b "valid") then
            match mv with
            | some v => if v.bundleId ≠ [] then bundleIds := bundleIds ++ [v.bundleId]
            | none => pure ()
  for ro in (← reqArr obs "routes") do
    let route ← reqStr ro "route"
    let n ← reqNat ro "mismatch"
    let m := (mismatchCount.find? (·.1 = route)).map (·.2) |>.getD 0
    if n != m then diffs := diffs ++ [s!"route {showL route}: mismatching rules model={m} impl={n}"]
  -- 8. cert bundles: exactly those referenced by valid backends of existing groups, with the ConfigMap's bytes
  let implBundles ← (← reqArr obs "bundles").mapM fun b => do return (← reqStr b "id", ← reqStr b "data")
  let expBundles := bundleIds.eraseDups.filterMap fun id =>
    (inp.cms.find? fun c => certBundleId (c.ns, c.name) = id).map fun c => (id, c.ca)
  let bKey := fun (b : List Char × List Char) => s!"{showL b.1}:{hash b.2}"
  if sortStrs (expBundles.map bKey) != sortStrs (implBundles.map bKey) then
    diffs := diffs ++ [s!"cert bundles model={expBundles.map (showL ·.1)} impl={implBundles.map (showL ·.1)} (or bytes differ)"]
  if diffs.isEmpty then return "ok"
  return "diff " ++ "; ".intercalate (diffs.take 5)

/-! ### direct-call correspondence -/

def parsePolSpec (j : Json) : Except String (Option BTP) := do
  if j.isNull then return none
  let refs ← (← reqArr j "refs").mapM fun r => do
    return (⟨← optStr r "group", ← optStr r "kind", ← optStr r "name"⟩ : CARef)
  let wk ← match optField j "wk" with
    | none => pure none
    | some v => do pure (some (← v.getStr?).toList)
  return some { id := ← reqNat j "id", ns := [], name := [], ts := 0, targets := [], hostname := ← reqStr j "host",
                hostOK := true, refs := refs, wk := wk, full := false }

def loopLine (line : String) : Except String String := do
  let j ← Json.parse line
  let k ← (← j.getObjVal? "k").getStr?
  let cmp (model impl : String) : String := if model = impl then "ok" else s!"diff model={model} impl={impl}"
  match k with
  | "mismatch" =>
    let pols ← (← reqArr j "in").mapM parsePolSpec
    let impl ← reqBool j "out"
    let m := mismatch pols
    return if m = impl then "ok"
      else if mismatchPre pols = impl then s!"diff model={m} impl={impl} (the code behaves like the loop before fix e38b1f9)"
      else s!"diff model={m} impl={impl}"
  | "morespecific" =>
    let a ← reqStr j "a"
    let b ← reqStr j "b"
    return cmp s!"{showL (moreSpecific a b)}/{lms a b}" s!"{showL (← reqStr j "out")}/{← reqBool j "lms"}"
  | "accepted" =>
    let out := findAccepted (← reqStr j "l") (← strList j "r")
    return cmp (toString (out.map showL)) (toString ((← strList j "out").map showL))
  | "ids" =>
    let s := (← reqStr j "ns", ← reqStr j "name")
    return cmp s!"{showL (keyPairId s)} {showL (certBundleId s)} {showL (pemFileName (keyPairId s))}"
      s!"{showL (← reqStr j "kp")} {showL (← reqStr j "cb")} {showL (← reqStr j "path")}"
  | "pem" =>
    return cmp (showL (pem (← reqStr j "cert") (← reqStr j "key"))) (showL (← reqStr j "out"))
  | "proxytls" =>
    let vs ← (← reqArr j "in").mapM fun v => do
      if v.isNull then pure none
      else pure (some (⟨← optStr v "bundle", ← optStr v "host", ← optStr v "root"⟩ : Verify))
    let grpc ← reqBool j "grpc"
    let r := proxyTLS vs
    let model := match r with
      | none => s!"false///{showL (protocol r grpc)}"
      | some v => s!"true/{showL (trustedCert v)}/{showL v.hostname}/{showL (protocol r grpc)}"
    return cmp model s!"{← reqBool j "has"}/{showL (← reqStr j "tc")}/{showL (← reqStr j "name")}/{showL (← reqStr j "proto")}"
  | "resolveseq" =>
    let secrets ← (← reqArr j "secrets").mapM parseSecret
    let keys ← (← reqArr j "keys").mapM fun k => do return (← reqStr k "ns", ← reqStr k "name")
    let impl ← (← reqArr j "out").mapM (·.getBool?)
    let m : List Bool := (resolveSeq secrets [] keys).map fun v => decide (v = .ok)
    return if m = impl then "ok"
      else if ((resolveSeqUnstored secrets [] keys).map fun v => decide (v = SecretRes.ok)) = impl then
        s!"diff model={m} impl={impl} (the code behaves like a resolver that does not store the error of the malformed-pair branch)"
      else s!"diff model={m} impl={impl}"
  | "pemfiles" =>
    -- Generate on a Configuration with several key pairs: every emitted key-pair file = cert, newline, key of ITS pair
    let pairs ← (← reqArr j "pairs").mapM fun k => do return (⟨← reqStr k "id", ← reqStr k "cert", ← reqStr k "key"⟩ : KeyPair)
    let files ← (← reqArr j "files").mapM fun f => do return (← reqStr f "path", ← reqStr f "content")
    let want := pairs.map fun k => (pemFileName k.id, pem k.cert k.key)
    let key := fun (f : List Char × List Char) => s!"{showL f.1}:{f.2.length}:{hash f.2}"
    let bad := files.filter fun f => !want.contains f
    return if sortStrs (want.map key) = sortStrs (files.map key) then "ok"
      else s!"diff files that are not cert, newline, key of their own pair: {bad.map (showL ·.1)} (model={want.map (showL ·.1)} impl={files.map (showL ·.1)})"
  | "findbtp" =>
    let pols ← (enumFrom 0 (← reqArr j "pols")).mapM fun (i, p) => do
      return ({ id := i, ns := ← reqStr p "ns", name := ← reqStr p "name", ts := ← reqNat p "ts",
                targets := ← strList p "targets", hostname := [], hostOK := ← reqBool p "valid", refs := [],
                wk := some kSystem, full := false } : BTP)
    let refNS ← reqStr j "refNS"
    let routeNS ← reqStr j "routeNS"
    let ns := if refNS = [] then routeNS else refNS
    let sel := findBTP pols ns (← reqStr j "refName")
    let model := match sel with
      | none => "/false"
      | some b => s!"{showL b.ns}/{showL b.name}/{!b.valid []}"
    return cmp model s!"{showL (← reqStr j "out")}/{← reqBool j "err"}"
  | _ => return "bad-op"

/-! ### pipeline level: `genT` against the real configuration and secret files -/

def pipelineLine (line : String) : Except String String := do
  let j ← Json.parse line
  if NGF.PipelineIO.optStr j "site" != "frag" then return "{\"skip\":true}"
  let flat ← NGF.PipelineIO.dScenario (← j.getObjVal? "flat")
  let secrets ← (← reqArr j "secrets").mapM parseSecret
  let sfiles ← (← reqArr j "sfiles").mapM fun f => do
    return ((← (← f.getObjVal? "path").getStr?), (← (← f.getObjVal? "content").getStr?))
  match NGF.PipelineIO.dConfig (← j.getObjVal? "files") with
  | .error e => return (Json.mkObj [("inFragment", false), ("why", "unparsable: " ++ e)]).compress
  | .ok cfg =>
    let t := NGF.PipelineTlsTie.tieT cfg flat secrets sfiles
    let st := t.stats
    return (Json.mkObj [("inFragment", t.inFragment), ("why", t.why), ("served", t.served), ("confEqual", t.confEqual),
      ("confDiff", t.confDiff), ("filesEqual", t.filesEqual), ("filesDiff", t.filesDiff), ("thmFail", t.thmFail),
      ("thmChecks", t.thmChecks),
      ("stats", Json.mkObj [("http", st.httpListeners), ("https", st.httpsListeners), ("validHttps", st.validHttps),
        ("badRef", st.badRef), ("conflicted", st.conflictedL), ("res", Json.arr (st.resKinds.map Json.str).toArray),
        ("sslServers", st.sslServers), ("listenerOnly", st.listenerOnlyServers), ("sslLocs", st.sslLocs),
        ("keyPairs", st.keyPairs), ("sharedPorts", st.sharedPorts), ("contested", st.contested)])]).compress

/-- one answer line per input line: control characters never reach the output -/
def oneLine (s : String) : String :=
  String.ofList (s.toList.map fun c => if c.toNat < 32 then '~' else c)

def run (f : String → Except String String) (l : String) : String :=
  oneLine (match f l with
  | .ok s => s
  | .error e => "bad-op " ++ e)

def driver (args : List String) : IO UInt32 := do
  let stdin ← IO.getStdin
  let stdout ← IO.getStdout
  match args with
  | ["judge"] => NGF.Proto.forEachLine stdin fun l => stdout.putStrLn (run judgeLine l)
  | ["model"] => NGF.Proto.forEachLine stdin fun l => stdout.putStrLn (run modelLine l)
  | ["loop"] => NGF.Proto.forEachLine stdin fun l => stdout.putStrLn (run loopLine l)
  | ["pipeline"] => NGF.Proto.forEachLine stdin fun l => stdout.putStrLn (run pipelineLine l)
  | _ => IO.eprintln "usage: C16 judge|model|loop|pipeline"; return 2
  return 0

end NGF.TlsDriver

/-- executable entry point: `ngfdriver_C16 judge|model|loop` -/
def main (args : List String) : IO UInt32 := NGF.TlsDriver.driver args
