import NGF.Model.Loop
import NGF.Model.Delivery
import NGF.Model.Proto
/-
Driver entry for C10.
  model line :  `first=<natlist> ops=<op,op,…>`   ops: r<N> | h | a | c | d
  output     :  `log=<lists> next=<list> h=<..> handling=<..> phase=<..> overlap=<..> skipped=<n>`
  judge line :  `first=<natlist> sent=<natlist> batches=<lists> exits=<lists> maxconc=<n> early=<0|1> drained=<0|1> [stuck=<0|1>]`
  output     :  `ok` | `fail <clause>`
Delivery (`NGF.Model.Delivery`):
  dmodel line:  `qs=<q|q|…> first=<natlist> ops=<op,…>`  q = `id:pass:get,…` (get f|n|e|d|c; one entry per INVOCATION: a requeued request repeats its id); ops: b<i> | d<i>:<ev> | g<i> | c | lh | la | lc | ld
  output     :  `from=<lists> dropped=<lists> failed=<lists> skippedids=<lists> gets=<natlist> ctx=<0|1> skipped=<n>`
  djudge line:  `qs=… recv=<natlist> errs=<natlist> cancelled=<0|1> …`     output `ok` | `fail <clause>`
  pmodel line:  `objs=<id:get,…> lists=<items|E|…>`                        output `batch=<natlist|ERR> calls=<natlist>`
  pjudge line:  `objs=… lists=… out=<natlist|ERR>`                         output `ok` | `fail <clause>`
-/
namespace NGF.Loop
open NGF.Proto

def parseAct (s : String) : Option Act :=
  if s == "h" then some .hreturn
  else if s == "a" then some .ack
  else if s == "c" then some .cancel
  else if s == "d" then some .drainack
  else if s.startsWith "r" then (s.drop 1).toString.toNat?.map Act.recv
  else none

/-- like `run` but counts skipped (disabled) actions, to tell the harness its schedule was illegal -/
def runCount (s : Loop) (n : Nat) : List Act → Loop × Nat
  | [] => (s, n)
  | a :: as => if enabled s a then runCount (step s a) n as else runCount s (n + 1) as

def showH : HState → String
  | .idle => "idle" | .running => "running" | .returned => "returned"
def showP : Phase → String
  | .select => "select" | .draining => "draining" | .stopped => "stopped"

def modelLine (line : String) : String :=
  let fs := line.splitOn " "
  match field fs "first", field fs "ops" with
  | some f, some o =>
    match parseNatList f, (if o == "-" then some [] else (o.splitOn ",").mapM parseAct) with
    | some first, some ops =>
      let (s, k) := runCount (init first) 0 ops
      s!"log={showNatLists s.log} next={showNatList s.next} h={showH s.h} handling={s.handling} phase={showP s.phase} overlap={s.overlap} skipped={k}"
    | _, _ => "bad-op"
  | _, _ => "bad-op"

/-- The property evaluated on an observed execution of the real loop.
`batches` are the slices seen at handler entry, `exits` the same slices re-read at handler exit,
`maxconc` the maximum number of simultaneously running handlers, `early` whether Start returned
while a handler was still running, `drained` whether the harness let the loop run to quiescence
(then every sent event must have been handled), `stuck` whether an event offered while the handler was idle
(acknowledged and gone) was not taken by the loop within the bounded wait. The FIRST handler invocation
must carry exactly the start-up batch, also when that batch is empty. -/
def judge (first sent : List Nat) (batches exits : List (List Nat)) (maxconc : Nat)
    (early drained : Bool) (stuck : Bool := false) : Option String :=
  if batches.head? != some first then some "first_batch_first"
  else if stuck then some "idle_implies_empty_next"
  else if maxconc > 1 then some "at_most_one_in_flight"
  else if batches != exits then some "handler_view_stable"
  else if early then some "cancel_waits"
  else if batches.tail.any (·.isEmpty) then some "no_empty_batch"
  else if drained && batches.flatten != first ++ sent then some "exactly_once_in_order"
  else if !drained && !(batches.flatten).isPrefixOf (first ++ sent) then some "exactly_once_in_order"
  else none

def judgeLine (line : String) : String :=
  let fs := line.splitOn " "
  match field fs "first" >>= parseNatList, field fs "sent" >>= parseNatList,
        field fs "batches" >>= parseNatLists, field fs "exits" >>= parseNatLists,
        field fs "maxconc" >>= String.toNat?, field fs "early", field fs "drained" with
  | some first, some sent, some b, some x, some mc, some e, some d =>
    match judge first sent b x mc (e == "1") (d == "1") (field fs "stuck" == some "1") with
    | none => "ok"
    | some c => "fail " ++ c
  | _, _, _, _, _, _, _ => "bad-op"

end NGF.Loop

namespace NGF.Delivery
open NGF.Proto NGF.Loop

def parseGet (s : String) : Option GetRes :=
  -- e / d / c: a Get error that is plain / wraps context.DeadlineExceeded / wraps context.Canceled — the code treats
  -- every error other than NotFound alike (returned, so that controller-runtime requeues the request)
  if s == "f" then some .found else if s == "n" then some .notFound
  else if s == "e" || s == "d" || s == "c" then some .error else none

def parseReq (s : String) : Option Req :=
  match s.splitOn ":" with
  | [i, p, g] =>
    match i.toNat?, p.toNat?, parseGet g with
    | some id, some pp, some gg => some ⟨id, pp != 0, gg⟩
    | _, _, _ => none
  | _ => none

def parseQueue (s : String) : Option (List Req) :=
  if s == "-" || s == "" then some [] else (s.splitOn ",").mapM parseReq

def parseQueues (s : String) : Option (List (List Req)) :=
  if s == "~" then some [] else (s.splitOn "|").mapM parseQueue

def parseDOp (s : String) : Option DOp :=
  if s == "c" then some (.act .cancelCtx)
  else if s == "lh" then some (.act (.loop .hreturn))
  else if s == "la" then some (.act (.loop .ack))
  else if s == "lc" then some (.act (.loop .cancel))
  else if s == "ld" then some (.act (.loop .drainack))
  else if s.startsWith "b" then (s.drop 1).toString.toNat?.map (fun i => .act (.begin i))
  else if s.startsWith "g" then (s.drop 1).toString.toNat?.map (fun i => .act (.giveup i))
  else if s.startsWith "d" then
    match (s.drop 1).toString.splitOn ":" with
    | [i, e] => match i.toNat?, e.toNat? with
      | some ii, some ee => some (.deliverEv ii ee)
      | _, _ => none
    | _ => none
  else none

/-- ids the Getter was asked for: requests already started whose name passed the filter. -/
def getsOf (qs : List (List Req)) (recs : List Rec) : List Nat :=
  (qs.zip recs).flatMap fun (q, r) => ((q.take (q.length - r.todo.length)).filter (·.pass)).map (·.id)

def sortNat (l : List Nat) : List Nat := (l.toArray.qsort (· < ·)).toList

def dmodelLine (line : String) : String :=
  let fs := line.splitOn " "
  match field fs "qs" >>= parseQueues, field fs "first" >>= parseNatList, field fs "ops" with
  | some qs, some first, some o =>
    match (if o == "-" then some [] else (o.splitOn ",").mapM parseDOp) with
    | some ops =>
      let (s, k) := runOps (Sys.init first qs) 0 ops
      let idxs := List.range s.recs.length
      s!"from={showNatLists (idxs.map s.seenFrom)} dropped={showNatLists (s.recs.map Rec.dropped)} failed={showNatLists (s.recs.map (·.failed))} skippedids={showNatLists (s.recs.map (·.skipped))} gets={showNatList (sortNat (getsOf qs s.recs))} ctx={if s.ctxDone then 1 else 0} quiet={s.quiet} skipped={k}"
    | none => "bad-op"
  | _, _, _ => "bad-op"

/-- The property on an observed execution: what the loop received from reconciler `i` (ids of
reconciler i are `1000*i + k`, events `2*id` / `2*id+1`). Context live: exactly the demanded events,
once each, in queue order. Context cancelled: an in-order sub-sequence of them. Errors of Get are
reported (so that controller-runtime requeues) exactly for the requests whose Get failed. -/
def djudge (qs : List (List Req)) (recv errs : List Nat) (cancelled : Bool) : Option String :=
  let w := qs.length
  let fromI (i : Nat) := recv.filter (fun e => e / 2000 == i)
  let want (q : List Req) := q.filterMap Req.ev
  let wantErrs := sortNat (qs.flatten.filterMap fun r => if r.pass && r.get == .error then some r.id else none)
  if recv.any (fun e => e / 2000 ≥ w) then some "request_handled_exactly_once:unknown_event"
  else if !cancelled && (List.range w).any (fun i => fromI i != want (qs.getD i [])) then
    some "reconciler_never_drops"
  else if cancelled && (List.range w).any (fun i => !(fromI i).isSublist (want (qs.getD i []))) then
    some "request_handled_exactly_once"
  else if sortNat errs != wantErrs then some "reconcile_error_reported"
  else none

def djudgeLine (line : String) : String :=
  let fs := line.splitOn " "
  match field fs "qs" >>= parseQueues, field fs "recv" >>= parseNatList, field fs "errs" >>= parseNatList,
        field fs "cancelled" with
  | some qs, some recv, some errs, some c =>
    match djudge qs recv errs (c == "1") with
    | none => "ok"
    | some cl => "fail " ++ cl
  | _, _, _, _ => "bad-op"

def parseObj (s : String) : Option (Nat × GetRes) :=
  match s.splitOn ":" with
  | [i, g] => match i.toNat?, parseGet g with
    | some id, some gg => some (id, gg)
    | _, _ => none
  | _ => none

def parseObjs (s : String) : Option (List (Nat × GetRes)) :=
  if s == "-" || s == "" then some [] else (s.splitOn ",").mapM parseObj

def parseLists (s : String) : Option (List ListRes) :=
  if s == "~" then some []
  else (s.splitOn "|").mapM fun x => if x == "E" then some .error else (parseNatList x).map .ok

def pmodelLine (line : String) : String :=
  let fs := line.splitOn " "
  match field fs "objs" >>= parseObjs, field fs "lists" >>= parseLists with
  | some objs, some lists =>
    let b := match prepare objs lists with
      | none => "ERR"
      | some b => showNatList b
    s!"batch={b} calls={showNatList (prepareCalls objs lists)}"
  | _, _ => "bad-op"

/-- The property of the start-up batch on the real output: `Prepare` fails exactly when a read fails
(a missing object is not a failure), and a returned batch is complete (`firstBatchComplete`). -/
def pjudge (objs : List (Nat × GetRes)) (lists : List ListRes) (out : Option (List Nat)) : Option String :=
  match out with
  | none => if readFails objs lists then none else some "prepare_aborts_iff"
  | some b =>
    if readFails objs lists then some "prepare_aborts_iff"
    else if !firstBatchComplete objs lists b then some "first_batch_complete"
    else none

def pjudgeLine (line : String) : String :=
  let fs := line.splitOn " "
  match field fs "objs" >>= parseObjs, field fs "lists" >>= parseLists, field fs "out" with
  | some objs, some lists, some o =>
    let out := if o == "ERR" then some none else (parseNatList o).map some
    match out with
    | some out =>
      match pjudge objs lists out with
      | none => "ok"
      | some cl => "fail " ++ cl
    | none => "bad-op"
  | _, _, _ => "bad-op"

end NGF.Delivery

namespace NGF.Loop
open NGF.Proto

def driver (args : List String) : IO UInt32 := do
  let stdin ← IO.getStdin
  let stdout ← IO.getStdout
  match args with
  | ["model"] => forEachLine stdin fun l => stdout.putStrLn (modelLine l)
  | ["judge"] => forEachLine stdin fun l => stdout.putStrLn (judgeLine l)
  | ["dmodel"] => forEachLine stdin fun l => stdout.putStrLn (NGF.Delivery.dmodelLine l)
  | ["djudge"] => forEachLine stdin fun l => stdout.putStrLn (NGF.Delivery.djudgeLine l)
  | ["pmodel"] => forEachLine stdin fun l => stdout.putStrLn (NGF.Delivery.pmodelLine l)
  | ["pjudge"] => forEachLine stdin fun l => stdout.putStrLn (NGF.Delivery.pjudgeLine l)
  | _ => IO.eprintln "usage: C10 model|judge|dmodel|djudge|pmodel|pjudge"; return 2
  return 0

end NGF.Loop

/-- executable entry point: `ngfdriver_C10 model|judge` -/
def main (args : List String) : IO UInt32 := NGF.Loop.driver args
