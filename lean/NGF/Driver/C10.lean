import NGF.Model.Loop
import NGF.Model.Proto
/-
Driver entry for C10.
  model line :  `first=<natlist> ops=<op,op,…>`   ops: r<N> | h | a | c | d
  output     :  `log=<lists> next=<list> h=<..> handling=<..> phase=<..> overlap=<..> skipped=<n>`
  judge line :  `first=<natlist> sent=<natlist> batches=<lists> exits=<lists> maxconc=<n> early=<0|1> drained=<0|1>`
  output     :  `ok` | `fail <clause>`
-/
namespace NGF.Loop
open NGF.Proto

def parseAct (s : String) : Option Act :=
  if s == "h" then some .hreturn
  else if s == "a" then some .ack
  else if s == "c" then some .cancel
  else if s == "d" then some .drainack
  else if s.startsWith "r" then (s.drop 1).toString.toNat?.map Act.recv
  else none

/-- like `run` but counts skipped (disabled) actions, to tell the harness its schedule was illegal -/
def runCount (s : Loop) (n : Nat) : List Act → Loop × Nat
  | [] => (s, n)
  | a :: as => if enabled s a then runCount (step s a) n as else runCount s (n + 1) as

def showH : HState → String
  | .idle => "idle" | .running => "running" | .returned => "returned"
def showP : Phase → String
  | .select => "select" | .draining => "draining" | .stopped => "stopped"

def modelLine (line : String) : String :=
  let fs := line.splitOn " "
  match field fs "first", field fs "ops" with
  | some f, some o =>
    match parseNatList f, (if o == "-" then some [] else (o.splitOn ",").mapM parseAct) with
    | some first, some ops =>
      let (s, k) := runCount (init first) 0 ops
      s!"log={showNatLists s.log} next={showNatList s.next} h={showH s.h} handling={s.handling} phase={showP s.phase} overlap={s.overlap} skipped={k}"
    | _, _ => "bad-op"
  | _, _ => "bad-op"

/-- The property evaluated on an observed execution of the real loop.
`batches` are the slices seen at handler entry, `exits` the same slices re-read at handler exit,
`maxconc` the maximum number of simultaneously running handlers, `early` whether Start returned
while a handler was still running, `drained` whether the harness let the loop run to quiescence
(then every sent event must have been handled). -/
def judge (first sent : List Nat) (batches exits : List (List Nat)) (maxconc : Nat)
    (early drained : Bool) : Option String :=
  if batches.head? != some first then some "first_batch_first"
  else if maxconc > 1 then some "at_most_one_in_flight"
  else if batches != exits then some "handler_view_stable"
  else if early then some "cancel_waits"
  else if batches.tail.any (·.isEmpty) then some "no_empty_batch"
  else if drained && batches.flatten != first ++ sent then some "exactly_once_in_order"
  else if !drained && !(batches.flatten).isPrefixOf (first ++ sent) then some "exactly_once_in_order"
  else none

def judgeLine (line : String) : String :=
  let fs := line.splitOn " "
  match field fs "first" >>= parseNatList, field fs "sent" >>= parseNatList,
        field fs "batches" >>= parseNatLists, field fs "exits" >>= parseNatLists,
        field fs "maxconc" >>= String.toNat?, field fs "early", field fs "drained" with
  | some first, some sent, some b, some x, some mc, some e, some d =>
    match judge first sent b x mc (e == "1") (d == "1") with
    | none => "ok"
    | some c => "fail " ++ c
  | _, _, _, _, _, _, _ => "bad-op"

def driver (args : List String) : IO UInt32 := do
  let stdin ← IO.getStdin
  let stdout ← IO.getStdout
  match args with
  | ["model"] => forEachLine stdin fun l => stdout.putStrLn (modelLine l)
  | ["judge"] => forEachLine stdin fun l => stdout.putStrLn (judgeLine l)
  | _ => IO.eprintln "usage: C10 model|judge"; return 2
  return 0

end NGF.Loop

/-- executable entry point: `ngfdriver_C10 model|judge` -/
def main (args : List String) : IO UInt32 := NGF.Loop.driver args
