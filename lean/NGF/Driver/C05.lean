import NGF.Model.PanicSites
import NGF.Model.Proto
/-
Driver entry for C05.
  model line : the `M` part of a harness step (harness/c05/view.go):
      ev=.. sk=.. ch=.. ns=.. gw=.. ls=.. rs=.. plus=.. ps=.. bt=.. pt=.. br=.. hp=.. rt=.. ft=.. dp=.. ur=.. shadow=..
  output     : `sites=<site,…|-> pre=<site,…|-> premay=<site,…|->`  the mirrored sites that fire in this step (current
               code), the sites the PRE-FIX mirrors (before d734bd5 / 02715d5) would fire, and the site the pre-72dccd7
               mirror fires if some backendRef reaches such a policy (reachability not modelled)
  judge line : `outcome=<ok|nochange|panic|hang> site=<token|-> ur=<n> up=<parentRefs of the silent routes> pu=<n>`
  output     : `ok` | `fail hang` | `fail panic <token>` | `fail unreported <class>`
-/
namespace NGF.PanicSites
open NGF.Proto

def listOf (s : String) (sep : String) : List String :=
  if s == "-" || s == "" then [] else s.splitOn sep

def parseBool (s : String) : Option Bool :=
  if s == "1" then some true else if s == "0" then some false else none

def parseFrom (s : String) : Option From :=
  match s with
  | "A" => some .all | "S" => some .same | "L" => some .selector | "N" => some .absent
  | "X" => some .nilPtr | "O" => some .other | _ => none

def parseListener (s : String) : Option Listener :=
  match s.splitOn ":" with
  | [n, a, f, h] => do
    let a ← parseBool a; let f ← parseFrom f; let h ← parseBool h
    pure { name := n, attachable := a, from_ := f, hasSelector := h }
  | _ => none

def splitNsName (s : String) : Option (String × String) :=
  match s.splitOn "/" with
  | [a, b] => some (a, b)
  | _ => none

def parseRef (s : String) : Option ParentRef :=
  match s.splitOn "~" with
  | [g, sec, p] => do
    let (ns, n) ← splitNsName g
    let p ← parseBool p
    pure { gwNs := ns, gwName := n, section_ := if sec == "*" then "" else sec, hasPort := p }
  | _ => none

def parseRoute (s : String) : Option Route :=
  match s.splitOn ":" with
  | [_, key, a, refs] => do
    let (ns, _) ← splitNsName key
    let a ← parseBool a
    let refs ← (listOf refs "|").mapM parseRef
    pure { ns := ns, attachable := a, refs := refs }
  | _ => none

def parseGw (gw ls : String) : Option (Option Gateway) :=
  if gw == "-" then some none else
  match gw.splitOn ":" with
  | [key, v] => do
    let (ns, n) ← splitNsName key
    let v ← parseBool v
    let ls ← (listOf ls ";").mapM parseListener
    pure (some { ns := ns, name := n, valid := v, listeners := ls })
  | _ => none

def parsePlusFile (s : String) : Option PlusFile :=
  match s.splitOn ":" with
  | [a, b, t] => do
    let a ← parseBool a; let b ← parseBool b; let t ← t.toNat?
    pure { secretPresent := a, fieldPresent := b, type := t }
  | _ => none

def parseBackend (s : String) : Option BackendRef :=
  match s.splitOn "/" with
  | [ns, n, p] => do
    let p ← p.toNat?
    pure { valid := true, ns := if ns == "?" then "" else ns, name := if n == "?" then "" else n, port := p }
  | _ => none

def parseHostOps (s : String) : Option (List (List String)) :=
  match s.splitOn ":" with
  | [_, ops] => some ((ops.splitOn ",").map fun o => if o == "_" then [] else o.splitOn "+")
  | _ => none

def parseKindCfg (s : String) : Option KindCfg :=
  match s.splitOn ":" with
  | [k, b] => do let b ← parseBool b; pure { kind := k, hasStore := b }
  | _ => none

def parseFilter (s : String) : Option (Bool × String) :=
  match s.splitOn ":" with
  | ["G", t] => some (true, t)
  | ["H", t] => some (false, t)
  | _ => none

def parseBtp (s : String) : Option (Bool × Nat) :=
  match s.splitOn ":" with
  | [_, v, n] => do let v ← parseBool v; let n ← n.toNat?; pure (v, n)
  | _ => none

def parseEvent (s : String) : Option String :=
  match s.splitOn ":" with
  | [_, k] => some k
  | _ => none

def parseStep (line : String) : Option (Updater × StepView) := do
  let fs := line.splitOn " "
  let ev ← field fs "ev"; let sk ← field fs "sk"; let ch ← field fs "ch"
  let ns ← field fs "ns"; let gw ← field fs "gw"; let ls ← field fs "ls"; let rs ← field fs "rs"
  let plus ← field fs "plus"; let ps ← field fs "ps"; let pt ← field fs "pt"; let br ← field fs "br"
  let hp ← field fs "hp"; let rt ← field fs "rt"; let ft ← field fs "ft"; let bt ← field fs "bt"
  let cfgs ← (listOf sk ",").mapM parseKindCfg
  let events ← (listOf ev ",").mapM parseEvent
  let ch ← parseBool ch
  let g ← parseGw gw ls
  let routes ← (listOf rs ";").mapM parseRoute
  let plus ← parseBool plus
  let files ← (listOf ps ";").mapM parsePlusFile
  let backends ← (listOf br ",").mapM parseBackend
  let hostOps ← (listOf hp ";").mapM parseHostOps
  let filters ← (listOf ft ",").mapM parseFilter
  let btps ← (listOf bt ";").mapM parseBtp
  pure (newUpdater cfgs,
    { events := events, changed := ch,
      bind := { namespaces := listOf ns ",", gw := g, routes := routes },
      plus := plus, plusFiles := files, pathTypes := listOf pt ",", backends := backends,
      hostOps := hostOps, routeTypes := listOf rt ",", filterTypes := filters, btps := btps })

def parseSpecRef (s : String) : Option SpecRef :=
  match s.splitOn "~" with
  | [g, sec, p] => do
    let port ← if p == "-" then some none else p.toNat?.map some
    pure { gw := g, section_ := if sec == "*" then "" else sec, port := port }
  | _ => none

/-- classes of the silent routes of a step (`up=` field) -/
def silentClasses (up : String) : Option (List String) :=
  (listOf up ";").mapM fun r => (listOf r "|").mapM parseSpecRef |>.map classifySilent

def showSites (l : List Site) : String := if l.isEmpty then "-" else ",".intercalate (l.map Site.name)

def modelLine (line : String) : String :=
  match parseStep line with
  | none => "bad-op"
  | some (u, v) =>
    let m : String → String → Bool := fun _ _ => true
    let premay := if v.changed then btpMaySitesPre v.btps else []
    s!"sites={showSites (stepSites u m v)} pre={showSites (preSites m v)} premay={showSites premay}"

/-- The property on one observed step of the real controller: it returned (no hang), did not panic,
every route it declared invalid carries at least one condition, and every parentRef of an attachable route
either attached or carries a failed condition (so the problem is reported in the route's status). -/
def judge (outcome site : String) (unreported : Nat) (classes : List String) (silentParents : Nat) : Option String :=
  if outcome == "hang" then some "hang"
  else if outcome == "panic" then some ("panic " ++ site)
  else if outcome != "ok" && outcome != "nochange" then some "bad-outcome"
  else if unreported > 0 then
    -- the most specific class first; "inadmissible" means the harness generated something the API server rejects
    some ("unreported " ++ (classes.find? (· == "parentrefs-same-section-different-port")
      |>.getD (classes.headD "other")))
  else if silentParents > 0 then
    -- a parentRef of an attachable route neither attached nor carrying a failed condition
    some "unreported parentref-without-condition"
  else none

def judgeLine (line : String) : String :=
  let fs := line.splitOn " "
  match field fs "outcome", field fs "site", (field fs "ur").bind String.toNat?, (field fs "up").bind silentClasses,
        (field fs "pu").bind String.toNat? with
  | some o, some s, some u, some cl, some pu =>
    match judge o s u cl pu with
    | none => "ok"
    | some c => "fail " ++ c
  | _, _, _, _, _ => "bad-op"

def driver (args : List String) : IO UInt32 := do
  let stdin ← IO.getStdin
  let stdout ← IO.getStdout
  match args with
  | ["model"] => forEachLine stdin fun l => stdout.putStrLn (modelLine l)
  | ["judge"] => forEachLine stdin fun l => stdout.putStrLn (judgeLine l)
  | _ => IO.eprintln "usage: C05 model|judge"; return 2
  return 0

end NGF.PanicSites

/-- executable entry point: `ngfdriver_C05 model|judge` -/
def main (args : List String) : IO UInt32 := NGF.PanicSites.driver args
