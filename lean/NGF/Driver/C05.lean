import NGF.Model.PanicSites
import NGF.Model.DerefSites
import NGF.Model.NilGuards
import NGF.Model.Proto
/-
Driver entry for C05.
  model line : the `M` part of a harness step (harness/c05/view.go):
      ev=.. sk=.. ch=.. ns=.. gw=.. ls=.. rs=.. plus=.. ps=.. bt=.. pt=.. br=.. hp=.. rt=.. ft=.. dp=.. ur=.. shadow=..
  output     : `sites=<site,…|-> pre=<site,…|-> premay=<site,…|->`  the mirrored sites that fire in this step (current
               code), the sites the PRE-FIX mirrors (before d734bd5 / 02715d5) would fire, and the site the pre-72dccd7
               mirror fires if some backendRef reaches such a policy (reachability not modelled)
  judge line : `outcome=<ok|nochange|panic|hang> site=<token|-> ur=<n> up=<parentRefs of the silent routes> pu=<n>`
  output     : `ok` | `fail hang` | `fail panic <token>` | `fail unreported <class>`
-/
namespace NGF.PanicSites
open NGF.Proto

def listOf (s : String) (sep : String) : List String :=
  if s == "-" || s == "" then [] else s.splitOn sep

def parseBool (s : String) : Option Bool :=
  if s == "1" then some true else if s == "0" then some false else none

def parseFrom (s : String) : Option From :=
  match s with
  | "A" => some .all | "S" => some .same | "L" => some .selector | "N" => some .absent
  | "X" => some .nilPtr | "O" => some .other | _ => none

def parseListener (s : String) : Option Listener :=
  match s.splitOn ":" with
  | [n, a, f, h] => do
    let a ← parseBool a; let f ← parseFrom f; let h ← parseBool h
    pure { name := n, attachable := a, from_ := f, hasSelector := h }
  | _ => none

def splitNsName (s : String) : Option (String × String) :=
  match s.splitOn "/" with
  | [a, b] => some (a, b)
  | _ => none

def parseRef (s : String) : Option ParentRef :=
  match s.splitOn "~" with
  | [g, sec, p] => do
    let (ns, n) ← splitNsName g
    let p ← parseBool p
    pure { gwNs := ns, gwName := n, section_ := if sec == "*" then "" else sec, hasPort := p }
  | _ => none

def parseRoute (s : String) : Option Route :=
  match s.splitOn ":" with
  | [_, key, a, refs] => do
    let (ns, _) ← splitNsName key
    let a ← parseBool a
    let refs ← (listOf refs "|").mapM parseRef
    pure { ns := ns, attachable := a, refs := refs }
  | _ => none

def parseGw (gw ls : String) : Option (Option Gateway) :=
  if gw == "-" then some none else
  match gw.splitOn ":" with
  | [key, v] => do
    let (ns, n) ← splitNsName key
    let v ← parseBool v
    let ls ← (listOf ls ";").mapM parseListener
    pure (some { ns := ns, name := n, valid := v, listeners := ls })
  | _ => none

def parsePlusFile (s : String) : Option PlusFile :=
  match s.splitOn ":" with
  | [a, b, t] => do
    let a ← parseBool a; let b ← parseBool b; let t ← t.toNat?
    pure { secretPresent := a, fieldPresent := b, type := t }
  | _ => none

def parseBackend (s : String) : Option BackendRef :=
  match s.splitOn "/" with
  | [ns, n, p] => do
    let p ← p.toNat?
    pure { valid := true, ns := if ns == "?" then "" else ns, name := if n == "?" then "" else n, port := p }
  | _ => none

def parseHostOps (s : String) : Option (List (List String)) :=
  match s.splitOn ":" with
  | [_, ops] => some ((ops.splitOn ",").map fun o => if o == "_" then [] else o.splitOn "+")
  | _ => none

def parseKindCfg (s : String) : Option KindCfg :=
  match s.splitOn ":" with
  | [k, b] => do let b ← parseBool b; pure { kind := k, hasStore := b }
  | _ => none

def parseFilter (s : String) : Option (Bool × String) :=
  match s.splitOn ":" with
  | ["G", t] => some (true, t)
  | ["H", t] => some (false, t)
  | _ => none

def parseBtp (s : String) : Option (Bool × Nat) :=
  match s.splitOn ":" with
  | [_, v, n] => do let v ← parseBool v; let n ← n.toNat?; pure (v, n)
  | _ => none

def parseEvent (s : String) : Option String :=
  match s.splitOn ":" with
  | [_, k] => some k
  | _ => none

def parseStep (line : String) : Option (Updater × StepView) := do
  let fs := line.splitOn " "
  let ev ← field fs "ev"; let sk ← field fs "sk"; let ch ← field fs "ch"
  let ns ← field fs "ns"; let gw ← field fs "gw"; let ls ← field fs "ls"; let rs ← field fs "rs"
  let plus ← field fs "plus"; let ps ← field fs "ps"; let pt ← field fs "pt"; let br ← field fs "br"
  let hp ← field fs "hp"; let rt ← field fs "rt"; let ft ← field fs "ft"; let bt ← field fs "bt"
  let cfgs ← (listOf sk ",").mapM parseKindCfg
  let events ← (listOf ev ",").mapM parseEvent
  let ch ← parseBool ch
  let g ← parseGw gw ls
  let routes ← (listOf rs ";").mapM parseRoute
  let plus ← parseBool plus
  let files ← (listOf ps ";").mapM parsePlusFile
  let backends ← (listOf br ",").mapM parseBackend
  let hostOps ← (listOf hp ";").mapM parseHostOps
  let filters ← (listOf ft ",").mapM parseFilter
  let btps ← (listOf bt ";").mapM parseBtp
  pure (newUpdater cfgs,
    { events := events, changed := ch,
      bind := { namespaces := listOf ns ",", gw := g, routes := routes },
      plus := plus, plusFiles := files, pathTypes := listOf pt ",", backends := backends,
      hostOps := hostOps, routeTypes := listOf rt ",", filterTypes := filters, btps := btps })

def parseSpecRef (s : String) : Option SpecRef :=
  match s.splitOn "~" with
  | [g, sec, p] => do
    let port ← if p == "-" then some none else p.toNat?.map some
    pure { gw := g, section_ := if sec == "*" then "" else sec, port := port }
  | _ => none

/-- classes of the silent routes of a step (`up=` field) -/
def silentClasses (up : String) : Option (List String) :=
  (listOf up ";").mapM fun r => (listOf r "|").mapM parseSpecRef |>.map classifySilent

def showSites (l : List Site) : String := if l.isEmpty then "-" else ",".intercalate (l.map Site.name)

def modelLine (line : String) : String :=
  match parseStep line with
  | none => "bad-op"
  | some (u, v) =>
    let m : String → String → Bool := fun _ _ => true
    let premay := if v.changed then btpMaySitesPre v.btps else []
    s!"sites={showSites (stepSites u m v)} pre={showSites (preSites m v)} premay={showSites premay}"

/-- The property on one observed step of the real controller: it returned (no hang), did not panic,
every route it declared invalid carries at least one condition, and every parentRef of an attachable route
either attached or carries a failed condition (so the problem is reported in the route's status). -/
def judge (outcome site : String) (unreported : Nat) (classes : List String) (silentParents : Nat) : Option String :=
  if outcome == "hang" then some "hang"
  else if outcome == "panic" then some ("panic " ++ site)
  else if outcome != "ok" && outcome != "nochange" then some "bad-outcome"
  else if unreported > 0 then
    -- the most specific class first; "inadmissible" means the harness generated something the API server rejects
    some ("unreported " ++ (classes.find? (· == "parentrefs-same-section-different-port")
      |>.getD (classes.headD "other")))
  else if silentParents > 0 then
    -- a parentRef of an attachable route neither attached nor carrying a failed condition
    some "unreported parentref-without-condition"
  else none

def judgeLine (line : String) : String :=
  let fs := line.splitOn " "
  match field fs "outcome", field fs "site", (field fs "ur").bind String.toNat?, (field fs "up").bind silentClasses,
        (field fs "pu").bind String.toNat? with
  | some o, some s, some u, some cl, some pu =>
    match judge o s u cl pu with
    | none => "ok"
    | some c => "fail " ++ c
  | _, _, _, _, _ => "bad-op"

/-- `deref` line: the eight columns of one inventory row separated by TABs; answer: `guarded` |
`justified <why>` | `UNJUSTIFIED` (the decision `NGF.DerefSites.siteOk` of the obligation). -/
def derefLine (line : String) : String :=
  match line.splitOn "\t" with
  | [id, file, fn, cls, expr, gk, g, n] =>
    match id.toNat?, n.toNat? with
    | some id, some n => NGF.DerefSites.verdict ⟨id, file, fn, cls, expr, gk, g, n⟩
    | _, _ => "bad-op"
  | _ => "bad-op"

/-! ### unit streams (task C05-nil): shapes of API objects → the mirrors of `NGF.Model.NilGuards`

  unit line  : `k=<filter|listener|backendref|btp|pathmatch> <shape fields>` (harness/c05/unit.go)
  output     : `out=<ok|panic> site=<gsite|-> rep=<0|1|n> valid=<0|1|-> adm=<0|1> uns=<0|1> pre=<gsite|->`
               pre = the site the PRE-FIX mirror (`processBtpPre`, code before cc3f1c7) fires on this shape
               rep = the real function must report an error / condition (pathmatch: the exact number of errors)
  ujudge line: the same shape fields + `rout=<ok|panic> rsite=<…> rrep=<n>` (what the REAL function did)
  output     : `ok` | `fail panic-on-admissible` | `fail silent-unsupported`  — the property on real outputs, with
               admissibility / "unsupported" decided by the Lean predicates from the shape -/
namespace Unit
open NGF.NilGuards

def pBool (s : String) : Option Bool := parseBool s

def pPathMod (s : String) : Option (Option PathMod) :=
  if s == "-" then some none else
  match s.splitOn "/" with
  | [t, f, p] => do let f ← pBool f; let p ← pBool p; pure (some { type := t, hasFull := f, hasPrefix := p })
  | _ => none

def pPathFilter (s : String) : Option (Option PathFilter) :=
  if s == "-" then some none else
  match s.splitOn "," with
  | [pm, bad] => do let pm ← pPathMod pm; let bad ← pBool bad; pure (some { path := pm, bad := bad })
  | _ => none

def pOptBool (s : String) : Option (Option Bool) := if s == "-" then some none else (pBool s).map some

def pFilter (fs : List String) : Option Filter := do
  let g ← (field fs "g").bind pBool
  let t ← field fs "t"
  let rd ← (field fs "rd").bind pPathFilter
  let rw ← (field fs "rw").bind pPathFilter
  let qh ← (field fs "qh").bind pOptBool
  let sh ← (field fs "sh").bind pOptBool
  let er ← (field fs "er").bind pOptBool
  let mr ← (field fs "mr").bind pBool
  pure { grpc := g, type := if t == "-" then "" else t, redirect := rd, urlRewrite := rw, reqHdr := qh, respHdr := sh,
         extRef := er, mirror := mr }

def pTls (s : String) : Option (Option Tls) :=
  if s == "-" then some none else
  match s.splitOn "," with
  | [m, nc, k, g, no] => do
    let nc ← nc.toNat?; let k ← pBool k; let g ← pBool g; let no ← no.toNat?
    pure (some { mode := if m == "nil" then none else some m, nCerts := nc, kindOk := k, groupOk := g, nOpts := no })
  | _ => none

def pListener (fs : List String) : Option ListenerIn := do
  let p ← field fs "p"
  let t ← (field fs "tls").bind pTls
  let ob ← (field fs "ob").bind pBool
  let sec ← (field fs "sec").bind pBool
  pure { proto := p, tls := t, otherBad := ob, secretOk := sec }

def pOptNat (s : String) : Option (Option Nat) := if s == "-" then some none else s.toNat?.map some

def pBackendRef (fs : List String) : Option BackendRefShape := do
  let g ← field fs "g"; let kd ← (field fs "kd").bind pBool; let x ← (field fs "x").bind pBool
  let gr ← (field fs "gr").bind pBool; let port ← (field fs "port").bind pOptNat; let w ← (field fs "w").bind pBool
  let nf ← (field fs "nf").bind String.toNat?; let svc ← (field fs "svc").bind pBool
  pure { group := g, kindOk := kd, crossNs := x, granted := gr, port := port, weightOk := w, nFilters := nf, svcExists := svc }

def pBtp (fs : List String) : Option BtpShape := do
  let full ← (field fs "full").bind pBool; let host ← (field fs "host").bind pBool
  let ca ← (field fs "ca").bind pOptNat; let cak ← (field fs "cak").bind pBool; let cm ← (field fs "cm").bind pBool
  let wk ← field fs "wk"
  pure { ancestorsFull := full, hostOk := host, caRefs := ca, caKindOk := cak, caResolves := cm,
         wellKnown := if wk == "-" then none else some wk }

def okValue : String := "/coffee"
def badValue : String := "/a{b}"
def internalValue : String := "/_ngf-internal/x"
/-- `validator.ValidatePathInMatch` on the three values the harness uses -/
def valueOk (v : String) : Bool := v != badValue

def pPathMatch (fs : List String) : Option (Option PanicSites.PathMatch) := do
  let t ← field fs "pt"; let v ← field fs "pv"
  if t == "-" then pure none else
  let val ← if v == "nil" then some none else if v == "ok" then some (some okValue)
    else if v == "internal" then some (some internalValue) else if v == "bad" then some (some badValue) else none
  pure (some { type := if t == "nil" then none else some t, value := val })

structure Pred where
  out   : String
  site  : String
  rep   : Nat
  valid : String
  adm   : Bool
  uns   : Bool

def b01 (b : Bool) : String := if b then "1" else "0"

def ofExcept {α : Type} (e : Except GSite α) (rep : α → Nat) (valid : α → String) (adm uns : Bool) : Pred :=
  match e with
  | .error s => { out := "panic", site := s.name, rep := 0, valid := "-", adm := adm, uns := uns }
  | .ok a => { out := "ok", site := "-", rep := rep a, valid := valid a, adm := adm, uns := uns }

def predict (fs : List String) : Option Pred :=
  match field fs "k" with
  | some "filter" => (pFilter fs).map fun f =>
      ofExcept (filterPipeline f) (fun b => if b then 1 else 0) (fun _ => "-") f.adm f.unsupported
  | some "listener" => (pListener fs).map fun l =>
      ofExcept (listenerPipeline l) (fun o => if o.hasConds then 1 else 0) (fun o => b01 o.valid) l.adm l.unsupported
  | some "backendref" => (pBackendRef fs).map fun r =>
      ofExcept (backendRefPipeline r) (fun v => if v then 0 else 1) (fun v => b01 v) r.adm r.unsupported
  | some "btp" => (pBtp fs).map fun b =>
      ofExcept (processBtp b) (fun o => if o.2 > 0 then 1 else 0) (fun o => b01 o.1) b.adm b.unsupported
  | some "pathmatch" => (pPathMatch fs).map fun p =>
      -- the unit stream runs validatePathMatch only (the conversion in upsertRoute is covered by the `pt=` view
      -- of the pipeline stream): the exact number of errors is compared
      { out := "ok", site := "-", rep := PanicSites.validatePathMatch valueOk p, valid := "-", adm := pathMatchAdm p,
        uns := pathMatchUnsupported p }
  | _ => none

/-- what the pre-fix mirrors would do on the shape (regression detector for repaired sites) -/
def preSite (fs : List String) : String :=
  match field fs "k" with
  | some "btp" => match (pBtp fs).map processBtpPre with
    | some (.error s) => s.name
    | _ => "-"
  | _ => "-"

def unitLine (line : String) : String :=
  match predict (line.splitOn " ") with
  | none => "bad-op"
  | some p => s!"out={p.out} site={p.site} rep={p.rep} valid={p.valid} adm={b01 p.adm} uns={b01 p.uns} pre={preSite (line.splitOn " ")}"

/-- The property on what the REAL function did with a shape: an admissible object never panics, and an admissible
object that uses something NGF does not implement is reported (error / condition), never silently accepted. -/
def ujudge (adm uns : Bool) (rout : String) (rrep : Nat) : Option String :=
  if !adm then none
  else if rout == "panic" then some "panic-on-admissible"
  else if rout != "ok" then some "bad-outcome"
  else if uns && rrep == 0 then some "silent-unsupported"
  else none

def ujudgeLine (line : String) : String :=
  let fs := line.splitOn " "
  match predict fs, field fs "rout", (field fs "rrep").bind String.toNat? with
  | some p, some rout, some rrep =>
    match ujudge p.adm p.uns rout rrep with
    | none => "ok"
    | some c => "fail " ++ c
  | _, _, _ => "bad-op"

end Unit

def driver (args : List String) : IO UInt32 := do
  let stdin ← IO.getStdin
  let stdout ← IO.getStdout
  match args with
  | ["model"] => forEachLine stdin fun l => stdout.putStrLn (modelLine l)
  | ["judge"] => forEachLine stdin fun l => stdout.putStrLn (judgeLine l)
  | ["deref"] => forEachLine stdin fun l => stdout.putStrLn (derefLine l)
  | ["unit"] => forEachLine stdin fun l => stdout.putStrLn (Unit.unitLine l)
  | ["ujudge"] => forEachLine stdin fun l => stdout.putStrLn (Unit.ujudgeLine l)
  | _ => IO.eprintln "usage: C05 model|judge|deref|unit|ujudge"; return 2
  return 0

end NGF.PanicSites

/-- executable entry point: `ngfdriver_C05 model|judge` -/
def main (args : List String) : IO UInt32 := NGF.PanicSites.driver args
