import Lean.Data.Json
import NGF.Model.RefGrant
import NGF.Model.RefGrantJudge
import NGF.Model.PipelineRefsTie
import NGF.Model.PipelineTlsRefs
import NGF.Model.Proto
/-
Driver entry for C06.  Every input line is one JSON object `{"k":mode,"id":..,"in":{…},"obs":{…}}` as
written by harness/c06 ("obs" = what the REAL code produced).
  `model` : recompute the modelled part of "obs" from "in" (k=res, val) or from "in" + the real graph
            summary (k=e2e: verdict per backendRef / listener, backend groups), print it as JSON
  `judge` : evaluate the property on "in" and the real "obs" (k=e2e): `ok` | `skip <why>` | `fail <clause>; …`
  `refs`  : (lines with "flat" and "matches", stream `refs` of the harness) build the `PipelineRefs.ScenarioR` of the case and
            compare `resolveRef` with the real graph's BackendRefs and `Pipeline.gen (resolve c)` with the real http.conf
Undecodable input answers `bad-op`.
-/
namespace NGF.RefGrant
open Lean (Json)
open NGF.Nginx (Dir)

/-! ### decoding -/

def optField (j : Json) (k : String) : Option Json :=
  match j.getObjVal? k with
  | .ok v => if v.isNull then none else some v
  | .error _ => none

def reqStr (j : Json) (k : String) : Except String String := do (← j.getObjVal? k).getStr?
def reqNat (j : Json) (k : String) : Except String Nat := do (← j.getObjVal? k).getNat?
def reqInt (j : Json) (k : String) : Except String Int := do (← j.getObjVal? k).getInt?
def reqBool (j : Json) (k : String) : Except String Bool := do (← j.getObjVal? k).getBool?
def reqArr (j : Json) (k : String) : Except String (List Json) := do
  match j.getObjVal? k with
  | .ok v => if v.isNull then pure [] else return (← v.getArr?).toList
  | .error _ => pure []

def optStr (j : Json) (k : String) : Except String (Option String) :=
  match optField j k with
  | none => pure none
  | some v => do pure (some (← v.getStr?))

def optNat (j : Json) (k : String) : Except String (Option Nat) :=
  match optField j k with
  | none => pure none
  | some v => do pure (some (← v.getNat?))

def optInt (j : Json) (k : String) : Except String (Option Int) :=
  match optField j k with
  | none => pure none
  | some v => do pure (some (← v.getInt?))

def parseGrant (j : Json) : Except String Grant := do
  let froms ← (← reqArr j "from").mapM fun f => do
    return ({ group := ← reqStr f "group", kind := ← reqStr f "kind", ns := ← reqStr f "ns" } : GrantFrom)
  let tos ← (← reqArr j "to").mapM fun t => do
    return ({ group := ← reqStr t "group", kind := ← reqStr t "kind", name := ← optStr t "name" } : GrantTo)
  return { ns := ← reqStr j "ns", name := ← reqStr j "name", froms := froms, tos := tos }

def parseRef (j : Json) : Except String BackendRef := do
  return { group := ← optStr j "group", kind := ← optStr j "kind", ns := ← optStr j "ns", name := ← reqStr j "name",
           port := ← optNat j "port", weight := ← optInt j "weight", nfilters := ← reqNat j "nfilters" }

def parseKind (s : String) : Except String RouteKind :=
  if s == "HTTPRoute" then pure .http else if s == "GRPCRoute" then pure .grpc
  else if s == "TLSRoute" then pure .tls else throw s!"route kind {s}"

def parseRoute (j : Json) : Except String Route := do
  let rules ← (← reqArr j "rules").mapM fun r => do
    return ({ paths := ← (← reqArr r "paths").mapM (·.getStr?), refs := ← (← reqArr r "refs").mapM parseRef } : RRule)
  return { kind := ← parseKind (← reqStr j "kind"), ns := ← reqStr j "ns", name := ← reqStr j "name", rules := rules }

def parseCert (j : Json) : Except String LCert := do
  return { group := ← optStr j "group", kind := ← optStr j "kind", ns := ← optStr j "ns", name := ← reqStr j "name" }

def parseGateway (j : Json) : Except String Gateway := do
  let ls ← (← reqArr j "listeners").mapM fun l => do
    return ({ name := ← reqStr l "name", port := ← reqNat l "port", protocol := ← reqStr l "protocol",
              hostname := ← reqStr l "hostname", certs := ← (← reqArr l "certs").mapM parseCert } : GwListener)
  return { ns := ← reqStr j "ns", name := ← reqStr j "name", listeners := ls }

def parseObjs (j : Json) : Except String Objs := do
  let secrets ← (← reqArr j "secrets").mapM fun s => do
    return ({ ns := ← reqStr s "ns", name := ← reqStr s "name", hash := ← reqStr s "hash" } : Secret)
  return { grants := ← (← reqArr j "grants").mapM parseGrant, routes := ← (← reqArr j "routes").mapM parseRoute,
           gateways := ← (← reqArr j "gateways").mapM parseGateway, secrets := secrets }

def parseCond (j : Json) : Except String Cond := do
  match (← j.getArr?).toList with
  | [a, b, c] => return (← a.getStr?, ← b.getStr?, ← c.getStr?)
  | _ => throw "cond"

def parseConds (j : Json) (k : String) : Except String (List Cond) := do (← reqArr j k).mapM parseCond

def parseGRef (j : Json) : Except String GBackendRef := do
  return { valid := ← reqBool j "valid", svcNs := ← reqStr j "svcns", svcName := ← reqStr j "svcname",
           port := ← reqNat j "port", weight := ← reqInt j "weight" }

def parseGRoute (j : Json) : Except String OGRoute := do
  let rules ← (← reqArr j "rules").mapM fun r => do
    return ({ processed := ← reqBool r "processed", refs := ← (← reqArr r "refs").mapM parseGRef } : OGRule)
  return { kind := ← parseKind (← reqStr j "kind"), ns := ← reqStr j "ns", name := ← reqStr j "name",
           valid := ← reqBool j "valid", conds := ← parseConds j "conds", rules := rules }

def parseGroup (j : Json) : Except String OGroup := do
  let bs ← (← reqArr j "backends").mapM fun b => do
    return ({ upstream := ← reqStr b "up", valid := ← reqBool b "valid", weight := ← reqInt b "weight" } : Backend)
  let k ← reqStr j "kind"
  let kind ← if k == "" then pure none else do pure (some (← parseKind k))
  return { ns := ← reqStr j "ns", name := ← reqStr j "name", rule := ← reqNat j "rule", kind := kind,
           gname := ← reqStr j "gname", backends := bs, target := ← reqStr j "target",
           split := ← (← reqArr j "split").mapM (·.getStr?) }

def parseNginx (text : String) : Except String (List Dir) :=
  match NGF.Nginx.parseString text with
  | .ok ds => pure ds
  | .error e => throw s!"nginx parse error {repr e}"

def parseObs (j : Json) : Except String Obs := do
  let winner ← match optField j "winner" with
    | none => pure none
    | some v => match (← v.getArr?).toList with
      | [a, b] => do pure (some (← a.getStr?, ← b.getStr?))
      | _ => throw "winner"
  let graph ← j.getObjVal? "graph"
  let conf ← j.getObjVal? "conf"
  let files ← j.getObjVal? "files"
  let status ← j.getObjVal? "status"
  let gls ← (← reqArr graph "listeners").mapM fun l => do
    return ({ name := ← reqStr l "name", valid := ← reqBool l "valid", conds := ← parseConds l "conds",
              secret := ← reqStr l "secret" } : OGListener)
  let l4 ← (← reqArr conf "l4").mapM fun s => do
    return ({ host := ← reqStr s "host", port := ← reqNat s "port", up := ← reqStr s "up" } : OL4)
  let kps ← (← reqArr conf "keypairs").mapM fun s => do return (← reqStr s "id", ← reqStr s "hash")
  let pems ← (← reqArr files "pems").mapM fun s => do return (← reqStr s "path", ← reqStr s "hash")
  let rst ← (← reqArr status "routes").mapM fun r => do
    let ps ← (← reqArr r "parents").mapM fun p => do
      return ({ gwns := ← reqStr p "gwns", gwname := ← reqStr p "gwname", sect := ← reqStr p "section",
                conds := ← parseConds p "conds" } : OParent)
    return ({ kind := ← parseKind (← reqStr r "kind"), ns := ← reqStr r "ns", name := ← reqStr r "name",
              parents := ps } : ORouteStatus)
  let lst ← (← reqArr status "listeners").mapM fun l => do return (← reqStr l "name", ← parseConds l "conds")
  return { panic := ← reqStr j "panic", hasConf := ← reqBool j "hasconf", winner := winner,
           groutes := ← (← reqArr graph "routes").mapM parseGRoute, glisteners := gls,
           groups := ← (← reqArr conf "groups").mapM parseGroup, l4 := l4, keypairs := kps, pems := pems,
           http := ← parseNginx (← reqStr files "http"), stream := ← parseNginx (← reqStr files "stream"),
           rstatus := rst, lstatus := lst }

/-! ### model mode -/

def strsJson (l : List String) : Json := Json.arr (l.map Json.str).toArray

def showTo (t : ToRes) : String := s!"{t.group}|{t.kind}|{t.name}|{t.ns}"
def showFrom (f : FromRes) : String := s!"{f.group}|{f.kind}|{f.ns}"
def showKey (k : AllowedRef) : String := s!"{showTo k.to}<-{showFrom k.frm}"

def insertSorted (a : String) : List String → List String
  | [] => [a]
  | b :: l => if a < b then a :: b :: l else if a == b then b :: l else b :: insertSorted a l
def sortDedup (l : List String) : List String := l.foldr insertSorted []

def modelRes (i : Json) : Except String Json := do
  let gs ← (← reqArr i "grants").mapM parseGrant
  let allowed := newResolver gs
  let qs ← (← reqArr i "queries").mapM fun q => do
    let t ← q.getObjVal? "to"
    let f ← q.getObjVal? "from"
    return (({ group := ← reqStr t "Group", kind := ← reqStr t "Kind", name := ← reqStr t "Name", ns := ← reqStr t "NS" } : ToRes),
            ({ group := ← reqStr f "Group", kind := ← reqStr f "Kind", ns := ← reqStr f "NS" } : FromRes))
  let cns ← reqStr i "cns"
  let cname ← reqStr i "cname"
  let ctors := [showTo (toSecret cns cname), showTo (toService cns cname), showFrom (fromGateway cns),
    showFrom (fromHTTPRoute cns), showFrom (fromGRPCRoute cns), showFrom (fromTLSRoute cns),
    showFrom (fromRoute .http cns), showFrom (fromRoute .grpc cns)]
  return Json.mkObj [
    ("keys", strsJson (sortDedup (allowed.map showKey))),
    ("answers", Json.arr (qs.map fun (t, f) => Json.bool (refAllowed allowed t f)).toArray),
    ("viafrom", Json.arr (qs.map fun (t, f) => Json.bool (refAllowedFrom allowed f t)).toArray),
    ("ctors", strsJson ctors)]

def condStr (c : Cond) : String := s!"{c.1}/{c.2.1}/{c.2.2}"

def modelVal (i : Json) : Except String Json := do
  let gs ← (← reqArr i "grants").mapM parseGrant
  let kind ← reqStr i "kind"
  let ns ← reqStr i "ns"
  if kind == "Gateway" then
    let certs ← (← reqArr i "certs").mapM parseCert
    let secrets ← (← reqArr i "secrets").mapM (·.getStr?)
    match certs with
    | [] => throw "no certs"
    | c :: _ =>
      match certRefVerdict gs ns { ns := c.ns, name := c.name } with
      | .refNotPermitted =>
        return Json.mkObj [("valid", false), ("reason", ""), ("resolved", ""),
          ("conds", strsJson ["Accepted/False/RefNotPermitted", "ResolvedRefs/False/RefNotPermitted", "Programmed/False/Invalid"])]
      | .resolve sns sname =>
        let ok := secrets.contains s!"{sns}/{sname}"
        let l := resolveListener gs ns { ns := c.ns, name := c.name } true ok
        return Json.mkObj [("valid", l.valid), ("reason", ""),
          ("resolved", match l.secret with | some (a, b) => s!"{a}/{b}" | none => ""),
          ("conds", strsJson (if ok then [] else
            ["Accepted/False/InvalidCertificateRef", "ResolvedRefs/False/InvalidCertificateRef", "Programmed/False/Invalid"]))]
  else
    let ref ← parseRef (← i.getObjVal? "ref")
    let v := routeRefVerdict gs (← parseKind kind) ns ref
    return Json.mkObj [("valid", decide (v = .ok)), ("reason", v.reason), ("resolved", ""), ("conds", strsJson [])]

/-- e2e: what the model says about every backendRef / listener the real graph processed, and what it
makes of the graph's backend refs further down (dataplane backends, group target, split values) -/
def modelE2E (i : Json) (obsJ : Json) : Except String Json := do
  let o ← parseObjs i
  let b ← parseObs obsJ
  let refs := b.groutes.map fun gr =>
    match findRoute o gr.kind gr.ns gr.name with
    | none => Json.null
    | some r => Json.arr ((gr.rules.zipIdx).map fun (grule, idx) =>
        if !grule.processed then Json.null else
        match r.rules[idx]? with
        | none => Json.null
        | some rule => strsJson (rule.refs.map fun ref =>
            let v := routeRefVerdict o.grants gr.kind gr.ns ref
            if v = .ok then "ok" else v.reason)).toArray
  let gw := (servingGateways o b.winner).head?
  let lst := b.glisteners.map fun gl =>
    match gw with
    | none => Json.null
    | some g => match g.listeners.find? (·.name == gl.name) with
      | none => Json.null
      | some l =>
        if l.protocol != "HTTPS" then Json.str "n/a" else
        match l.certs with
        | [] => Json.str "n/a"
        | c :: _ =>
          -- the refined TLS pipeline model (Model/PipelineTlsRefs: `Tls.secretRefAllowed` on the projected grants) must give
          -- the verdict of the resolver model (`certRefVerdict_conv` in Props/C06Certs, executed here on the real cluster)
          let cns := c.ns.getD g.ns
          let refinedRefused := cns != g.ns &&
            !NGF.Tls.secretRefAllowed (o.grants.map NGF.PipelineTlsRefs.convGrant) g.ns.toList cns.toList c.name.toList
          match certRefVerdict o.grants g.ns { ns := c.ns, name := c.name } with
          | .refNotPermitted => if refinedRefused then Json.str "RefNotPermitted" else Json.str "mismatch refined-model-permits"
          | .resolve ns name => if refinedRefused then Json.str "mismatch refined-model-refuses" else Json.str s!"resolve {ns}/{name}"
  let groups := b.groups.map fun g =>
    match b.groutes.find? fun gr => some gr.kind == g.kind && gr.ns == g.ns && gr.name == g.name with
    | none => Json.null
    | some gr => match gr.rules[g.rule]? with
      | none => Json.null
      | some grule =>
        let bs := grule.refs.map toBackend
        Json.mkObj [
          ("backends", Json.arr (bs.map fun x => Json.mkObj [("up", x.upstream), ("valid", x.valid), ("weight", Json.num (Lean.JsonNumber.fromInt x.weight))]).toArray),
          ("target", backendGroupName g.gname bs),
          ("split", strsJson (bs.map splitClientValue))]
  let l4 := b.groutes.filterMap fun gr =>
    if gr.kind != .tls then none else
    match gr.rules with
    | [grule] => match grule.refs with
      | [x] => some (Json.str (servicePortReference x))
      | _ => none
    | _ => none
  let kps := sortDedup ((b.glisteners.filterMap fun gl =>
      if gl.valid && gl.secret != "" then
        match gl.secret.splitOn "/" with
        | [ns, name] => some (keyPairID ns name)
        | _ => none
      else none))
  return Json.mkObj [("refs", Json.arr refs.toArray), ("listeners", Json.arr lst.toArray),
    ("groups", Json.arr groups.toArray), ("l4ups", Json.arr l4.toArray), ("keypairs", strsJson kps)]

def modelLine (line : String) : String :=
  match Json.parse line with
  | .error _ => "bad-op"
  | .ok j =>
    let r : Except String Json := do
      let k ← reqStr j "k"
      let i ← j.getObjVal? "in"
      if k == "res" then modelRes i
      else if k == "val" then modelVal i
      else if k == "e2e" then modelE2E i (← j.getObjVal? "obs")
      else throw "mode"
    match r with
    | .ok out => out.compress
    | .error e => s!"bad-op {e}"

def judgeLine (line : String) : String :=
  match Json.parse line with
  | .error _ => "bad-op"
  | .ok j =>
    let r : Except String String := do
      let k ← reqStr j "k"
      if k != "e2e" then throw "mode"
      let o ← parseObjs (← j.getObjVal? "in")
      let obsJ ← j.getObjVal? "obs"
      let panic ← reqStr obsJ "panic"
      if panic != "" then return s!"skip panic {panic.take 120}"
      let b ← parseObs obsJ
      let fails := judge o b
      return if fails.isEmpty then "ok" else "fail " ++ "; ".intercalate (fails.eraseDups.take 6)
    match r with
    | .ok out => out
    | .error e => s!"bad-op {e}"


/-! ### refs mode: Model/PipelineRefs against the real graph and the real http.conf -/

end NGF.RefGrant

namespace NGF.C06Flat
open Lean (Json)
open NGF.RefGrant (reqStr reqNat reqInt reqBool reqArr)
open NGF.Spec.GatewayAPI

def strMap (j : Json) (k : String) : Except String (List (String × String)) := do
  match j.getObjVal? k with
  | .ok (.obj m) => m.toList.mapM fun (a, b) => do pure (a, ← b.getStr?)
  | _ => pure []

def strs (j : Json) (k : String) : Except String (List String) := do (← reqArr j k).mapM (·.getStr?)

def dKV (j : Json) : Except String KV := do pure ⟨← reqStr j "type", ← reqStr j "name", ← reqStr j "value"⟩
def dHeader (j : Json) : Except String Header := do pure ⟨← reqStr j "name", ← reqStr j "value"⟩

def dMatch (j : Json) : Except String Match := do
  pure { ptype := ← reqStr j "ptype", pvalue := ← reqStr j "pvalue", method := ← reqStr j "method",
         headers := ← (← reqArr j "headers").mapM dKV, query := ← (← reqArr j "query").mapM dKV,
         hasGm := ← reqBool j "hasGm", gmType := ← reqStr j "gmType", hasService := ← reqBool j "hasService",
         service := ← reqStr j "service", hasGMethod := ← reqBool j "hasGMethod", gmethod := ← reqStr j "gmethod" }

def dFilter (j : Json) : Except String Filter := do
  pure { type := ← reqStr j "type", present := ← reqBool j "present", scheme := ← reqStr j "scheme", hostname := ← reqStr j "hostname",
         hasPort := ← reqBool j "hasPort", port := ← reqNat j "port", code := ← reqNat j "code", pathType := ← reqStr j "pathType",
         pathValue := ← reqStr j "pathValue", set := ← (← reqArr j "set").mapM dHeader, add := ← (← reqArr j "add").mapM dHeader,
         remove := ← strs j "remove" }

def dBackend (j : Json) : Except String Backend := do
  pure { group := ← reqStr j "group", kind := ← reqStr j "kind", hasNs := ← reqBool j "hasNs", ns := ← reqStr j "ns", name := ← reqStr j "name",
         hasPort := ← reqBool j "hasPort", port := (← reqInt j "port").toNat, weight := ← reqInt j "weight", nfilters := ← reqNat j "nfilters" }

def dRule (j : Json) : Except String Rule := do
  pure { matches_ := ← (← reqArr j "matches").mapM dMatch, filters := ← (← reqArr j "filters").mapM dFilter,
         backends := ← (← reqArr j "backends").mapM dBackend }

def dParent (j : Json) : Except String ParentRef := do
  pure { group := ← reqStr j "group", kind := ← reqStr j "kind", hasNs := ← reqBool j "hasNs", ns := ← reqStr j "ns", name := ← reqStr j "name",
         hasSection := ← reqBool j "hasSection", sectionName := ← reqStr j "section", hasPort := ← reqBool j "hasPort" }

def dRoute (j : Json) : Except String Route := do
  pure { kind := ← reqStr j "kind", ns := ← reqStr j "ns", name := ← reqStr j "name", age := ← reqInt j "age",
         parents := ← (← reqArr j "parents").mapM dParent, hostnames := ← strs j "hostnames", rules := ← (← reqArr j "rules").mapM dRule }

def dListener (j : Json) : Except String Listener := do
  pure { name := ← reqStr j "name", port := (← reqInt j "port").toNat, proto := ← reqStr j "proto", hasHost := ← reqBool j "hasHost",
         host := ← reqStr j "host", hasTls := ← reqBool j "hasTls", tlsMode := ← reqStr j "tlsMode", tlsOpts := ← reqNat j "tlsOpts",
         certs := ← (← reqArr j "certs").mapM (fun c => do
           pure ({ group := ← reqStr c "group", kind := ← reqStr c "kind", hasNs := ← reqBool c "hasNs", ns := ← reqStr c "ns", name := ← reqStr c "name" } : CertRef)),
         nsFrom := ← reqStr j "from", hasSel := ← reqBool j "hasSel", selMatch := ← strMap j "selMatch", selExprs := ← reqNat j "selExprs",
         hasKinds := ← reqBool j "hasKinds",
         kinds := ← (← reqArr j "kinds").mapM (fun c => do pure (⟨← reqStr c "group", ← reqStr c "kind"⟩ : KindRef)) }

/-- C02's flat scenario (harness/c02/flat.go), same decoding as Driver/C02 -/
def dScenario (j : Json) : Except String Scenario := do
  pure { cls := ← reqStr j "class", ctlr := ← reqStr j "ctlr",
         protectedPorts := ← (← reqArr j "protected").mapM (·.getNat?),
         gcs := ← (← reqArr j "gcs").mapM (fun c => do pure (⟨← reqStr c "name", ← reqStr c "ctlr", ← reqInt c "age", ← reqBool c "params"⟩ : GatewayClass)),
         gws := ← (← reqArr j "gws").mapM (fun g => do
           pure ({ ns := ← reqStr g "ns", name := ← reqStr g "name", cls := ← reqStr g "class", age := ← reqInt g "age",
                   addresses := ← reqNat g "addresses", listeners := ← (← reqArr g "listeners").mapM dListener } : Gateway)),
         nss := ← (← reqArr j "nss").mapM (fun n => do pure (⟨← reqStr n "name", ← strMap n "labels"⟩ : Namespace)),
         routes := ← (← reqArr j "routes").mapM dRoute,
         svcs := ← (← reqArr j "svcs").mapM (fun v => do
           pure ({ ns := ← reqStr v "ns", name := ← reqStr v "name",
                   ports := ← (← reqArr v "ports").mapM (fun p => do pure (⟨(← reqInt p "port").toNat, ← reqBool p "ready"⟩ : SvcPort)) } : Svc)),
         grants := ← (← reqArr j "grants").mapM (fun g => do
           pure ({ ns := ← reqStr g "ns",
                   «from» := ← (← reqArr g "from").mapM (fun f => do pure (⟨← reqStr f "group", ← reqStr f "kind", ← reqStr f "ns"⟩ : GrantFrom)),
                   to := ← (← reqArr g "to").mapM (fun t => do pure (⟨← reqStr t "group", ← reqStr t "kind", ← reqBool t "hasName", ← reqStr t "name"⟩ : GrantTo)) } : Grant)),
         secrets := ← (← reqArr j "secrets").mapM (fun x => do pure (⟨← reqStr x "ns", ← reqStr x "name", ← reqBool x "ok"⟩ : Secret)) }

def optS (j : Json) (k : String) : String := match j.getObjVal? k with | .ok (.str x) => x | _ => ""

def dNjsMatch (j : Json) : Option NGF.NginxEval.Njs.Match :=
  match j with
  | .obj _ =>
    let any := match j.getObjVal? "any" with | .ok (.bool b) => b | _ => false
    let lst (k : String) : List (List Char) := match j.getObjVal? k with
      | .ok (.arr a) => a.toList.filterMap fun x => match x with | .str y => some y.toList | _ => none
      | _ => []
    some { any := any, method := (optS j "method").toList, headers := lst "headers", params := lst "params",
           redirectPath := (optS j "redirectPath").toList }
  | _ => none

def dMatches (text : String) : Except String (List (String × Option (List NGF.NginxEval.Njs.Match))) := do
  match ← Json.parse text with
  | .obj m => pure (m.toList.map fun (k, v) =>
      match v with
      | .arr a => (k, (a.toList.mapM dNjsMatch))
      | _ => (k, none))
  | _ => throw "matches.json is not an object"

end NGF.C06Flat

namespace NGF.RefGrant
open Lean (Json)
open NGF.Nginx (Dir)

def refsLine (line : String) : String :=
  match Json.parse line with
  | .error _ => "bad-op"
  | .ok j =>
    let r : Except String Json := do
      let flat ← NGF.C06Flat.dScenario (← j.getObjVal? "flat")
      let o ← parseObjs (← j.getObjVal? "in")
      let obsJ ← j.getObjVal? "obs"
      let panic ← reqStr obsJ "panic"
      if panic != "" then return Json.mkObj [("skip", "panic")]
      let b ← parseObs obsJ
      if !b.hasConf then return Json.mkObj [("skip", "no configuration")]
      let cfg : NGF.NginxEval.Config := { http := b.http, stream := b.stream, matchTab := ← NGF.C06Flat.dMatches (← reqStr j "matches") }
      let t := NGF.PipelineRefsTie.tie cfg flat o b
      return Json.mkObj [("inFragment", t.inFragment), ("why", t.why), ("shapeOK", t.shapeOK),
        ("refsCompared", t.refs.compared), ("refClasses", strsJson t.refs.classes), ("refsDiffs", strsJson t.refs.diffs),
        ("absentRoutes", t.refs.absentRoutes), ("confEqual", t.confEqual), ("confDiff", t.confDiff),
        ("targets", t.targets), ("invalidShares", t.invalidShares), ("refSvcs", strsJson t.refSvcs), ("namesOK", t.namesOK)]
    match r with
    | .ok out => out.compress
    | .error e => s!"bad-op {e}"

def driver (args : List String) : IO UInt32 := do
  let stdin ← IO.getStdin
  let stdout ← IO.getStdout
  match args with
  | ["model"] => NGF.Proto.forEachLine stdin fun l => stdout.putStrLn (modelLine l)
  | ["judge"] => NGF.Proto.forEachLine stdin fun l => stdout.putStrLn (judgeLine l)
  | ["refs"] => NGF.Proto.forEachLine stdin fun l => stdout.putStrLn (refsLine l)
  | _ => IO.eprintln "usage: C06 model|judge|refs"; return 2
  return 0

end NGF.RefGrant

/-- executable entry point: `ngfdriver_C06 model|judge` -/
def main (args : List String) : IO UInt32 := NGF.RefGrant.driver args
