import NGF.Model.Reload
import NGF.Model.HandlerVer
import NGF.Model.ReloadJudge
import NGF.Model.Proto
/-
Driver entry for C12.  Every line starts with a tag.

oracle fields (space separated in R/W lines, '/' separated inside a batch of an H line):
  pp=<p|m|s,…>  pb=<n>  pr=<e|g|pid>  prev=<e|c>  kill=<0|1>  ch=<e|c,…>  vs=<e|int,…>  b=<n>
model:
  R <oracle> n=<int>                 -> res=<ok|err kind> kill=<0|1> cr=<n> vr=<n>
  W prev=<c> ch=.. vs=.. b=.. n=..   -> res=.. cr=.. vr=..          (WaitForCorrectVersion alone)
  H plus=<0|1> bs=<batch;batch;…>    batch = ct=<n|e|c>/nf=<n>/vi=<n>/w=<ok|CLS:k>/api=<0|1>/<oracle>
                                     CLS = n (fs.ErrNotExist) | p (fs.ErrPermission) | i (EIO) | o (other);
                                     k = files written completely before the failure
                                     -> per batch, ';' separated:
       v=<n|-> gen=<0|1> rv=<n|-> rr=<ok|kind|-> api=<0|1> err=<0|1> st=<0|1> fe=<CLS|-> fw=<n|-> ver=<n> ready=<0|1> fbe=<0|1> last=<0|1> closes=<n>
  S t=<g|l|r> err=<0|1> cs=<type:status:reason,…>   -> cs=<…>
judge (the property on what the real code did; see `judgeR`, `judgeH`):
  R n=<int> ret=<ok|err> hup=<0|1> chg=<0|1> served=<int|->
  P plus=<0|1> obs=<o;o|o;o;o>         several controller processes, segments separated by '|'
  H plus=<0|1> obs=<o;o;…>  o = ct=/w=/rr=/api=/v=/fv=/rv=/hup=/chg=/served=/run=/full=/vd=/st=/gw=/ls=/rt=/sv=/svl=/ready=/closes=/panic=
-/
namespace NGF.C12
open NGF.Proto NGF.Reload NGF.HandlerVer

def parseList {α} (s : String) (f : String → Option α) : Option (List α) :=
  if s == "-" || s == "" then some [] else (s.splitOn ",").mapM f

def parsePidObs (s : String) : Option PidObs :=
  if s == "p" then some .present else if s == "m" then some .missing
  else if s == "s" then some .statErr else none

def parsePidRead (s : String) : Option PidRead :=
  if s == "e" then some .readErr else if s == "g" then some .garbage else s.toNat?.map .pid

def parseChild (s : String) : Option ChildRead :=
  if s == "e" then some .err else s.toNat?.map .content

def parseVer (s : String) : Option VerObs :=
  if s == "e" then some .err else s.toInt?.map .ver

def parseBool (s : String) : Option Bool :=
  if s == "1" then some true else if s == "0" then some false else none

def parseOracle (fs : List String) : Option Oracle := do
  let pp ← field fs "pp" >>= (parseList · parsePidObs)
  let pb ← field fs "pb" >>= String.toNat?
  let pr ← field fs "pr" >>= parsePidRead
  let prev ← field fs "prev" >>= parseChild
  let kill ← field fs "kill" >>= parseBool
  let ch ← field fs "ch" >>= (parseList · parseChild)
  let vs ← field fs "vs" >>= (parseList · parseVer)
  let b ← field fs "b" >>= String.toNat?
  pure ⟨pp, pb, pr, prev, kill, ch, vs, b⟩

def showErr : Err → String
  | .findPidStat => "findPidStat" | .findPidTimeout => "findPidTimeout" | .pidRead => "pidRead"
  | .pidParse => "pidParse" | .prevRead => "prevRead" | .kill => "kill"
  | .workersErr => "workersErr" | .workersTimeout => "workersTimeout"
  | .versionErr => "versionErr" | .versionTimeout => "versionTimeout"

def showRes : Option Err → String
  | none => "ok"
  | some e => showErr e

def b01 (b : Bool) : String := if b then "1" else "0"

def modelR (fs : List String) : String :=
  match parseOracle fs, field fs "n" >>= String.toInt? with
  | some o, some n =>
    let r := reload o n
    s!"res={showRes r.res} kill={b01 r.killCalled} cr={r.childReads} vr={r.verReqs}"
  | _, _ => "bad-op"

def modelW (fs : List String) : String :=
  match field fs "prev" >>= String.toNat?, field fs "ch" >>= (parseList · parseChild),
        field fs "vs" >>= (parseList · parseVer), field fs "b" >>= String.toNat?,
        field fs "n" >>= String.toInt? with
  | some p, some ch, some vs, some b, some n =>
    let r := waitForCorrectVersion p ch vs b n
    s!"res={showRes r.res} cr={r.childReads} vr={r.verReqs}"
  | _, _, _, _, _ => "bad-op"

def parseCt (s : String) : Option ChangeType :=
  if s == "n" then some .noChange else if s == "e" then some .endpointsOnly
  else if s == "c" then some .clusterState else none

def parseCls (s : String) : Option ErrClass :=
  if s == "n" then some .notExist else if s == "p" then some .permission
  else if s == "i" then some .io else if s == "o" then some .other else none

def showCls : ErrClass → String
  | .notExist => "n" | .permission => "p" | .io => "i" | .other => "o"

def parseFiles (s : String) : Option FilesOutcome :=
  if s == "ok" then some .ok
  else match s.splitOn ":" with
    | [c, k] => do
      let c ← parseCls c
      let k ← k.toNat?
      pure (.failed c k)
    | _ => none

def parseBatch (s : String) : Option Batch := do
  let fs := s.splitOn "/"
  let ct ← field fs "ct" >>= parseCt
  let nf ← field fs "nf" >>= String.toNat?
  let vi ← field fs "vi" >>= String.toNat?
  let w ← field fs "w" >>= parseFiles
  let api ← field fs "api" >>= parseBool
  let o ← parseOracle fs
  pure ⟨ct, nf, vi, w, o, api⟩

def showOptNat : Option Nat → String
  | none => "-"
  | some n => toString n

def showStep (s : H) (e : Emit) : String :=
  let rr := match e.reload with
    | none => "-"
    | some r => showRes r.res
  s!"v={showOptNat e.cfgVersion} gen={b01 e.generated} rv={showOptNat e.reloadVersion} rr={rr} " ++
  let fe := match e.fileErr with
    | none => "-"
    | some c => showCls c
  s!"api={b01 e.apiCalled} err={b01 e.err} st={b01 e.statusUpdated} fe={fe} fw={showOptNat e.written} ver={s.version} " ++
  s!"ready={b01 s.ready} fbe={b01 s.firstBatchErr} last={b01 s.lastErr} closes={s.closes}"

def modelH (fs : List String) : String :=
  match field fs "plus" >>= parseBool, field fs "bs" with
  | some plus, some bs =>
    match (if bs == "-" then some [] else (bs.splitOn ";").mapM parseBatch) with
    | some batches =>
      let states := hstates plus H.init batches
      let emits := (hrun plus H.init batches).2
      ";".intercalate ((states.zip emits).map fun (s, e) => showStep s e)
    | none => "bad-op"
  | _, _ => "bad-op"

def parseCond (s : String) : Option Cond :=
  match s.splitOn ":" with
  | [t, st, r] => some ⟨t, st, r⟩
  | _ => none

def showConds (cs : List Cond) : String :=
  if cs.isEmpty then "-" else ",".intercalate (cs.map fun c => s!"{c.type}:{c.status}:{c.reason}")

def parseTarget (s : String) : Option Target :=
  if s == "g" then some .gateway else if s == "l" then some .listener
  else if s == "r" then some .routeParent else none

def modelS (fs : List String) : String :=
  match field fs "t" >>= parseTarget, field fs "err" >>= parseBool,
        field fs "cs" >>= (parseList · parseCond) with
  | some t, some e, some cs => "cs=" ++ showConds (fold t e cs)
  | _, _, _ => "bad-op"

def modelLine (line : String) : String :=
  match line.splitOn " " with
  | "R" :: fs => modelR fs
  | "W" :: fs => modelW fs
  | "H" :: fs => modelH fs
  | "S" :: fs => modelS fs
  | _ => "bad-op"

/-! ### parsing of judge input -/

def optField (fs : List String) (k : String) (f : String → Option α) : Option (Option α) :=
  match field fs k with
  | none => none
  | some "-" => some none
  | some s => (f s).map some

def parseObs (s : String) : Option Obs := do
  let fs := s.splitOn "/"
  let ct ← field fs "ct" >>= parseCt
  let w ← optField fs "w" parseBool
  let rr ← optField fs "rr" (fun s => if s == "ok" then some true else if s == "err" then some false else none)
  let api ← optField fs "api" parseBool
  let v ← optField fs "v" String.toNat?
  let fv ← optField fs "fv" String.toNat?
  let rv ← optField fs "rv" String.toNat?
  let hup ← field fs "hup" >>= parseBool
  let chg ← field fs "chg" >>= parseBool
  let served ← optField fs "served" String.toInt?
  let run ← field fs "run" >>= parseBool
  let full ← optField fs "full" parseBool
  let vd ← optField fs "vd" String.toNat?
  let st ← field fs "st" >>= parseBool
  let gw ← field fs "gw"
  let ls ← field fs "ls"
  let rt ← field fs "rt"
  let sv ← field fs "sv"
  let svl ← field fs "svl"
  let ready ← field fs "ready" >>= parseBool
  let closes ← field fs "closes" >>= String.toNat?
  let panic ← field fs "panic" >>= parseBool
  pure ⟨ct, w, rr, api, v, fv, rv, hup, chg, served, run, full, vd, st, gw, ls, rt, sv, svl, ready, closes, panic⟩

def judgeLine (line : String) : String :=
  match line.splitOn " " with
  | "R" :: fs =>
    match field fs "n" >>= String.toInt?, field fs "ret", field fs "hup" >>= parseBool,
          field fs "chg" >>= parseBool, optField fs "served" String.toInt? with
    | some n, some ret, some hup, some chg, some served =>
      match judgeR n (ret == "ok") hup chg served with
      | none => "ok"
      | some c => "fail " ++ c
    | _, _, _, _, _ => "bad-op"
  | "H" :: fs =>
    match field fs "obs", field fs "plus" >>= parseBool with
    | some obs, some plus =>
      match (if obs == "-" then some [] else (obs.splitOn ";").mapM parseObs) with
      | some os =>
        match judgeH plus os with
        | none => "ok"
        | some c => "fail " ++ c
      | none => "bad-op"
    | _, _ => "bad-op"
  | "P" :: fs =>
    match field fs "obs", field fs "plus" >>= parseBool with
    | some obs, some plus =>
      match (obs.splitOn "|").mapM (fun seg =>
          if seg == "" || seg == "-" then some [] else (seg.splitOn ";").mapM parseObs) with
      | some segs =>
        match judgeP plus segs 0 with
        | none => "ok"
        | some c => "fail " ++ c
      | none => "bad-op"
    | _, _ => "bad-op"
  | _ => "bad-op"

def driver (args : List String) : IO UInt32 := do
  let stdin ← IO.getStdin
  let stdout ← IO.getStdout
  match args with
  | ["model"] => forEachLine stdin fun l => stdout.putStrLn (modelLine l)
  | ["judge"] => forEachLine stdin fun l => stdout.putStrLn (judgeLine l)
  | _ => IO.eprintln "usage: C12 model|judge"; return 2
  return 0

end NGF.C12

/-- executable entry point: `ngfdriver_C12 model|judge` -/
def main (args : List String) : IO UInt32 := NGF.C12.driver args
