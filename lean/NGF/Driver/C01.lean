import NGF.Model.Store
import NGF.Model.StoreJudge
import NGF.Model.Footprint
import NGF.Model.Proto
/-
Driver entry for C01.
  model line : `batches=<batch>|<batch>|…`   batch = `-` | `[!]<ev>,<ev>,…` (`!` = first batch of a restarted
               controller), ev = `<Kind>:<u|d>:<key>:<hasPred><verdict>`
  output     : `pend=<n,…|…> store=<n,…|…> ct=<n,…>`  |  `bad-op` | `bad-table <Kind>`
  judge line : `inert=<ct:files:status:reloads,…> a=<map> f=<map> sa=<map> sf=<map> fb=<map>`  (map = `k=v,…` | `-`)
  output     : `ok` | `fail <clause> <where>`
-/
namespace NGF.Store
open NGF.Proto

def parseEv (s : String) : Option (TEvent × Bool) :=
  match s.splitOn ":" with
  | [k, op, key, bits] =>
    match key.toNat?, bits.toList with
    | some n, [hp, v] =>
      let obj := if op == "u" then some (some ()) else if op == "d" then some none else none
      obj.map fun o => ({ kind := k, key := n, obj := o, oracle := v == '1' }, hp == '1')
    | _, _ => none
  | _ => none

def showCols (l : List (List Nat)) : String :=
  "|".intercalate (l.map showNatList)

/-- Replays all batches. -/
def replay : TProc → List String → List (List Nat) → List (List Nat) → List Nat → Option String
  | _, [], pend, col, cts =>
      some s!"pend={showCols pend.reverse} store={showCols col.reverse} ct={showNatList cts.reverse}"
  | p, b :: bs, pend, col, cts =>
      let restart := b.startsWith "!"
      let body := if restart then (b.drop 1).toString else b
      let p0 := if restart then traceInit else p
      let toks := if body == "-" || body == "" then [] else body.splitOn ","
      match toks.mapM parseEv with
      | none => none
      | some evs =>
        match evs.find? (fun (e, hp) => traceOps.hasPred e.kind != hp || !allKinds.contains e.kind) with
        | some (e, _) => some ("bad-table " ++ e.kind)
        | none =>
          let (p', pd, cl, ct) := traceBatch p0 (evs.map (·.1)) [] []
          replay p' bs (pd :: pend) (cl :: col) (ct :: cts)

def modelLine (line : String) : String :=
  match field (line.splitOn " ") "batches" with
  | some b => (replay traceInit (b.splitOn "|") [] [] []).getD "bad-op"
  | none => "bad-op"

/-! ### footprint mode: the referenced sets recomputed by the footprint model from the graph core
  line   : `winner=<nn|-> routes=<v;p+p;b+b>|… sels=<l+l>|… nss=<nn>:<l+l>|… hasgw=<0|1> btps=<ns;n;wk;kind;group;name>|… ls=<proto;ref;allowed>|…`
           (`-` = empty list, `~` = empty string)
  output : `svcs=<…> unref=<…> nss=<…> cms=<…> seccand=<…>` (comma separated, `-` = empty) -/

def lst (s : String) (sep : String) : List String :=
  if s == "-" || s == "" then [] else s.splitOn sep

def unTilde (s : String) : String := if s == "~" then "" else s

def showSet (l : List String) : String :=
  if l.isEmpty then "-" else ",".intercalate l.eraseDups

open NGF.Footprint in
def footprintLine (line : String) : String :=
  let fs := line.splitOn " "
  match field fs "winner", field fs "routes", field fs "sels", field fs "nss", field fs "hasgw", field fs "btps",
        field fs "ls" with
  | some w, some rs, some sels, some nss, some hg, some btps, some ls =>
    let routes? := (lst rs "|").mapM fun r =>
      match r.splitOn ";" with
      | [v, ps, bs] => some ({ valid := v == "1", parents := lst ps "+", backends := (lst bs "+").map unTilde } : RouteM)
      | _ => none
    let btps? := (lst btps "|").mapM fun b =>
      match b.splitOn ";" with
      | [ns, n, wk, kind, group, name] =>
        n.toNat?.map fun k => ({ ns := ns, nrefs := k, wellKnown := wk == "1", kind := unTilde kind, group := unTilde group,
                                 name := name } : BtpM)
      | _ => none
    let ls? := (lst ls "|").mapM fun l =>
      match l.splitOn ";" with
      | [proto, ref, al] => some ({ protocol := proto, certRef := ref, allowed := al == "1" } : ListenerM)
      | _ => none
    let nss? := (lst nss "|").mapM fun n =>
      match n.splitOn ":" with
      | [nn, labels] => some (nn, (lst labels "+").map fun t => (t, ""))
      | _ => none
    match routes?, btps?, ls?, nss? with
    | some routes, some bt, some lsn, some nsl =>
      let core : SvcCore := { winner := if w == "-" then none else some w, routes := routes }
      let refd := referencedServices core
      let unref := (readServices core).filter (!refd.contains ·)
      let nc : NsCore := { sels := (lst sels "|").map fun s => (lst s "+").map fun t => (t, "") }
      s!"svcs={showSet refd} unref={showSet unref} nss={showSet (referencedNamespaces nc nsl)} cms={showSet (referencedConfigMaps { hasGateway := hg == "1", btps := bt })} seccand={showSet (secretCandidates { listeners := lsn })}"
    | _, _, _, _ => "bad-op"
  | _, _, _, _, _, _, _ => "bad-op"

/-! ### watchsvc mode: `ServicePortsChangedPredicate.Update` as modelled (`Footprint.watchSvc`)
  line   : `old=<port:name:target+…>/<ipFamily+…> new=…`   output : `0` | `1` -/
open NGF.Footprint in
def parseSvc (s : String) : Option Svc :=
  match s.splitOn "/" with
  | [ps, fam] =>
    ((lst ps "+").mapM fun (p : String) =>
      match p.splitOn ":" with
      | [n, name, t] => n.toNat?.map fun k => ({ port := k, name := unTilde name, target := unTilde t } : SvcPort)
      | _ => none).map fun ports => { ports := ports, ipFamilies := lst fam "+" }
  | _ => none

open NGF.Footprint in
def watchSvcLine (line : String) : String :=
  let fs := line.splitOn " "
  match field fs "old" >>= parseSvc, field fs "new" >>= parseSvc with
  | some o, some n => if watchSvc o n then "1" else "0"
  | _, _ => "bad-op"

def driver (args : List String) : IO UInt32 := do
  let stdin ← IO.getStdin
  let stdout ← IO.getStdout
  match args with
  | ["model"] => forEachLine stdin fun l => stdout.putStrLn (modelLine l)
  | ["judge"] => forEachLine stdin fun l => stdout.putStrLn (judgeLine l)
  | ["footprint"] => forEachLine stdin fun l => stdout.putStrLn (footprintLine l)
  | ["watchsvc"] => forEachLine stdin fun l => stdout.putStrLn (watchSvcLine l)
  | _ => IO.eprintln "usage: C01 model|judge|footprint|watchsvc"; return 2
  return 0

end NGF.Store

/-- executable entry point: `ngfdriver_C01 model|judge` -/
def main (args : List String) : IO UInt32 := NGF.Store.driver args
