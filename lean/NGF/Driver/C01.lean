import Lean.Data.Json
import NGF.Model.Store
import NGF.Model.StoreHandler
import NGF.Model.StorePipelineTie
import NGF.Model.StoreJudge
import NGF.Model.Footprint
import NGF.Model.Proto
/-
Driver entry for C01.
  model line : `batches=<batch>|<batch>|…`   batch = `-` | `[!]<ev>,<ev>,…` (`!` = first batch of a restarted
               controller), ev = `<Kind>:<u|d>:<key>:<hasPred><verdict>` — EVERY event handed to `HandleEventBatch`
               (key 0 = the configured special name of the kind; bits `--` = the real handler did not hand the event
               to the change processor, so no predicate answer was observed)
  output     : `pend=<n,…|…> store=<n,…|…> fwd=<n,…|…> emit=<n,…|…> ct=<n,…>`  |  `bad-op` | `bad-table <Kind>`
               (the events go through `parseAndCapture treeHandler`: `fwd` = reached Capture…Change, `emit` = status
               groups issued by the filter callbacks, folded per captured event + tail: `emitRuns`)
  judge line : `inert=<ct:files:status:reloads,…> a=<map> f=<map> sa=<map> sf=<map> fb=<map>`  (map = `k=v,…` | `-`)
  output     : `ok` | `fail <clause> <where>`
-/
namespace NGF.Store
open NGF.Proto

/-- event, observed `hasPred` bit (none = not observed) -/
def parseEv (s : String) : Option (TEvent × Option Bool) :=
  match s.splitOn ":" with
  | [k, op, key, bits] =>
    match key.toNat?, bits.toList with
    | some n, [hp, v] =>
      let obj := if op == "u" then some (some ()) else if op == "d" then some none else none
      obj.map fun o => ({ kind := k, key := n, obj := o, oracle := v == '1' }, if hp == '-' then none else some (hp == '1'))
    | _, _ => none
  | _ => none

def showCols (l : List (List Nat)) : String :=
  "|".intercalate (l.map showNatList)

/-- Replays all batches through the handler layer (`parseAndCapture treeHandler`). -/
def replay : TProc → List String → List BatchTrace → Option String
  | _, [], ts =>
      let ts := ts.reverse
      some s!"pend={showCols (ts.map (·.pend))} store={showCols (ts.map (·.col))} fwd={showCols (ts.map (·.fwd))} emit={showCols (ts.map fun t => emitRuns t.fwd t.emit 0)} ct={showNatList (ts.map (·.ct))}"
  | p, b :: bs, ts =>
      let restart := b.startsWith "!"
      let body := if restart then (b.drop 1).toString else b
      let p0 := if restart then traceInit else p
      let toks := if body == "-" || body == "" then [] else body.splitOn ","
      match toks.mapM parseEv with
      | none => none
      | some evs =>
        -- the kind table: an event must be of a kind registered with the processor or with the handler only, and
        -- the observed `hasPred` bit (where the real processor was asked) must be the table's
        match evs.find? (fun (e, hp) =>
            !(allKinds.contains e.kind || handlerOnlyKinds.contains e.kind) ||
            (match hp with | some b => traceOps.hasPred e.kind != b | none => false)) with
        | some (e, _) => some ("bad-table " ++ e.kind)
        | none =>
          let (p', t) := traceBatchH treeHandler p0 (evs.map (·.1)) {}
          replay p' bs (t :: ts)

def modelLine (line : String) : String :=
  match field (line.splitOn " ") "batches" with
  | some b => (replay traceInit (b.splitOn "|") []).getD "bad-op"
  | none => "bad-op"

/-! ### footprint mode: the referenced sets recomputed by the footprint model from the graph core
  line   : `winner=<nn|-> routes=<v;p+p;b+b>|… sels=<l+l>|… nss=<nn>:<l+l>|… hasgw=<0|1> btps=<ns;n;wk;kind;group;name>|… ls=<proto;ref;allowed>|…`
           (`-` = empty list, `~` = empty string)
           + the fields of `footprintExtra`
  output : `svcs=<…> unref=<…> nss=<…> nssvalid=<…> cms=<…> seccand=<…> nprefs=<…> polrel=<…> polgraph=<…> polfirst=<…>`
           (comma separated, `-` = empty; `nssvalid`/`polfirst` = what the weakened variants would reference) -/

def lst (s : String) (sep : String) : List String :=
  if s == "-" || s == "" then [] else s.splitOn sep

def unTilde (s : String) : String := if s == "~" then "" else s

def showSet (l : List String) : String :=
  if l.isEmpty then "-" else ",".intercalate l.eraseDups

/-- a selector listener: `<valid 0|1>;<label+label>` (a bare label list = valid) -/
def parseNsListener (tok : String) : NGF.Footprint.NsListener :=
  match tok.splitOn ";" with
  | [v, labels] => { valid := v == "1", sel := (lst labels "+").map fun t => (t, "") }
  | _ => { valid := true, sel := (lst tok "+").map fun t => (t, "") }

/-- NginxProxy and NGF policies: `gcref=<-|none|group;kind;name> nps=<name,…> gws=<nn+…> rkeys=<Kind;nn>|… refsvcs=<nn+…>
pols=<key;ns;g^k^n+…>|…`  →  `nprefs=<…> polrel=<…> polgraph=<…>` -/
def footprintExtra (fs : List String) : Option String :=
  open NGF.Footprint in
  match field fs "gcref", field fs "nps", field fs "gws", field fs "rkeys", field fs "refsvcs", field fs "pols" with
  | some gcref, some nps, some gws, some rkeys, some refsvcs, some pols =>
    let gc? : Option (Option (Option ParamsRef)) :=
      if gcref == "-" then some none
      else if gcref == "none" then some (some none)
      else match gcref.splitOn ";" with
        | [g, k, n] => some (some (some { group := unTilde g, kind := unTilde k, name := unTilde n }))
        | _ => none
    let routes? := (lst rkeys "|").mapM fun r =>
      match r.splitOn ";" with
      | [k, nn] => some (k, nn)
      | _ => none
    let parseRef : String → Option TargetRef := fun t =>
      match t.splitOn "^" with
      | [g, k, n] => some { group := unTilde g, kind := unTilde k, name := unTilde n }
      | _ => none
    let pols? : Option (List (String × PolicyM)) := (lst pols "|").mapM fun q =>
      match q.splitOn ";" with
      | [key, ns, refs] =>
        ((lst refs "+").mapM parseRef).map fun rs => (key, ({ ns := unTilde ns, refs := rs, payload := 0 } : PolicyM))
      | _ => none
    match gc?, routes?, pols? with
    | some gc, some routes, some ps =>
      let npc : NpCore := { gatewayClass := gc }
      let pc : PolCore := { hasWinner := !(lst gws "+").isEmpty, gateways := lst gws "+", routes := routes,
                            refSvcs := lst refsvcs "+" }
      let nprefs := ((lst nps ",").map unTilde).filter (npReferenced npc)
      let polrel := (ps.filter fun (_, q) => policyInGraph pc q || policyRelevant pc q).map (·.1)
      let polgraph := (ps.filter fun (_, q) => policyInGraph pc q).map (·.1)
      let polfirst := (ps.filter fun (_, q) => policyRelevantFirst pc q).map (·.1)
      some s!"nprefs={showSet nprefs} polrel={showSet polrel} polgraph={showSet polgraph} polfirst={showSet polfirst}"
    | _, _, _ => none
  | _, _, _, _, _, _ => none

open NGF.Footprint in
def footprintLine (line : String) : String :=
  let fs := line.splitOn " "
  match field fs "winner", field fs "routes", field fs "sels", field fs "nss", field fs "hasgw", field fs "btps",
        field fs "ls" with
  | some w, some rs, some sels, some nss, some hg, some btps, some ls =>
    let routes? := (lst rs "|").mapM fun r =>
      match r.splitOn ";" with
      | [v, ps, bs] => some ({ valid := v == "1", parents := lst ps "+", backends := (lst bs "+").map unTilde } : RouteM)
      | _ => none
    let btps? := (lst btps "|").mapM fun b =>
      match b.splitOn ";" with
      | [ns, n, wk, kind, group, name] =>
        n.toNat?.map fun k => ({ ns := ns, nrefs := k, wellKnown := wk == "1", kind := unTilde kind, group := unTilde group,
                                 name := name } : BtpM)
      | _ => none
    let ls? := (lst ls "|").mapM fun l =>
      match l.splitOn ";" with
      | [proto, ref, al] => some ({ protocol := proto, certRef := ref, allowed := al == "1" } : ListenerM)
      | _ => none
    let nss? := (lst nss "|").mapM fun n =>
      match n.splitOn ":" with
      | [nn, labels] => some (nn, (lst labels "+").map fun t => (t, ""))
      | _ => none
    match routes?, btps?, ls?, nss? with
    | some routes, some bt, some lsn, some nsl =>
      let core : SvcCore := { winner := if w == "-" then none else some w, routes := routes }
      let refd := referencedServices core
      let unref := (readServices core).filter (!refd.contains ·)
      let nc : NsCore := { listeners := (lst sels "|").map parseNsListener }
      let base := s!"svcs={showSet refd} unref={showSet unref} nss={showSet (referencedNamespaces nc nsl)} nssvalid={showSet ((nsl.filter fun p => nsReferencedValidOnly nc p.2).map (·.1))} cms={showSet (referencedConfigMaps { hasGateway := hg == "1", btps := bt })} seccand={showSet (secretCandidates { listeners := lsn })}"
      match footprintExtra fs with
      | some x => base ++ " " ++ x
      | none => "bad-op"
    | _, _, _, _ => "bad-op"
  | _, _, _, _, _, _, _ => "bad-op"

/-! ### watchsvc mode: `ServicePortsChangedPredicate.Update` as modelled (`Footprint.watchSvc`)
  line   : `old=<port:name:target+…>/<ipFamily+…> new=…`   output : `0` | `1` -/
open NGF.Footprint in
def parseSvc (s : String) : Option Svc :=
  match s.splitOn "/" with
  | [ps, fam] =>
    ((lst ps "+").mapM fun (p : String) =>
      match p.splitOn ":" with
      | [n, name, t] => n.toNat?.map fun k => ({ port := k, name := unTilde name, target := unTilde t } : SvcPort)
      | _ => none).map fun ports => { ports := ports, ipFamilies := lst fam "+" }
  | _ => none

open NGF.Footprint in
def watchSvcLine (line : String) : String :=
  let fs := line.splitOn " "
  match field fs "old" >>= parseSvc, field fs "new" >>= parseSvc with
  | some o, some n => if watchSvc o n then "1" else "0"
  | _, _ => "bad-op"


/-! ### pipeline mode: in-fragment HISTORIES replayed in the instantiated store machine (`Model/StorePipelineTie.replay`)
  line   : JSON `{front:[ns,name], states:[<pipeE view>…], steps:[{t:"ev"|"cut"|"restart",…}…]}` (harness/c01/pipeline.go)
  output : JSON `{inFragment, why, events, verdicts, irrelevant, cuts, confs, rebuilds, diffs:[…], echo:[…], errors:[…]}` -/
end NGF.Store

namespace NGF.C01Flat
open Lean (Json)
open NGF.Spec.GatewayAPI

def optField (j : Json) (k : String) : Option Json :=
  match j.getObjVal? k with
  | .ok v => if v.isNull then none else some v
  | .error _ => none
def reqStr (j : Json) (k : String) : Except String String := do (← j.getObjVal? k).getStr?
def reqNat (j : Json) (k : String) : Except String Nat := do (← j.getObjVal? k).getNat?
def reqBool (j : Json) (k : String) : Except String Bool := do (← j.getObjVal? k).getBool?
def reqArr (j : Json) (k : String) : Except String (List Json) := do
  match j.getObjVal? k with
  | .ok v => if v.isNull then pure [] else return (← v.getArr?).toList
  | .error _ => pure []
def reqInt (j : Json) (k : String) : Except String Int := do (← j.getObjVal? k).getInt?
def optBool (j : Json) (k : String) : Bool := match j.getObjVal? k with | .ok (.bool b) => b | _ => false
def optStr (j : Json) (k : String) : String := match j.getObjVal? k with | .ok (.str x) => x | _ => ""

/- C02's flat scenario (harness/c02/flat.go): same decoding as Driver/C02, C06, C13 -/
def strMap (j : Json) (k : String) : Except String (List (String × String)) := do
  match j.getObjVal? k with
  | .ok (.obj m) => m.toList.mapM fun (a, b) => do pure (a, ← b.getStr?)
  | _ => pure []

def strs (j : Json) (k : String) : Except String (List String) := do (← reqArr j k).mapM (·.getStr?)

def dKV (j : Json) : Except String KV := do pure ⟨← reqStr j "type", ← reqStr j "name", ← reqStr j "value"⟩
def dHeader (j : Json) : Except String Header := do pure ⟨← reqStr j "name", ← reqStr j "value"⟩

def dMatch (j : Json) : Except String Match := do
  pure { ptype := ← reqStr j "ptype", pvalue := ← reqStr j "pvalue", method := ← reqStr j "method",
         headers := ← (← reqArr j "headers").mapM dKV, query := ← (← reqArr j "query").mapM dKV,
         hasGm := ← reqBool j "hasGm", gmType := ← reqStr j "gmType", hasService := ← reqBool j "hasService",
         service := ← reqStr j "service", hasGMethod := ← reqBool j "hasGMethod", gmethod := ← reqStr j "gmethod" }

def dFilter (j : Json) : Except String Filter := do
  pure { type := ← reqStr j "type", present := ← reqBool j "present", scheme := ← reqStr j "scheme", hostname := ← reqStr j "hostname",
         hasPort := ← reqBool j "hasPort", port := ← reqNat j "port", code := ← reqNat j "code", pathType := ← reqStr j "pathType",
         pathValue := ← reqStr j "pathValue", set := ← (← reqArr j "set").mapM dHeader, add := ← (← reqArr j "add").mapM dHeader,
         remove := ← strs j "remove" }

def dBackend (j : Json) : Except String Backend := do
  pure { group := ← reqStr j "group", kind := ← reqStr j "kind", hasNs := ← reqBool j "hasNs", ns := ← reqStr j "ns", name := ← reqStr j "name",
         hasPort := ← reqBool j "hasPort", port := (← reqInt j "port").toNat, weight := ← reqInt j "weight", nfilters := ← reqNat j "nfilters" }

def dRule (j : Json) : Except String Rule := do
  pure { matches_ := ← (← reqArr j "matches").mapM dMatch, filters := ← (← reqArr j "filters").mapM dFilter,
         backends := ← (← reqArr j "backends").mapM dBackend }

def dParent (j : Json) : Except String ParentRef := do
  pure { group := ← reqStr j "group", kind := ← reqStr j "kind", hasNs := ← reqBool j "hasNs", ns := ← reqStr j "ns", name := ← reqStr j "name",
         hasSection := ← reqBool j "hasSection", sectionName := ← reqStr j "section", hasPort := ← reqBool j "hasPort" }

def dRoute (j : Json) : Except String Route := do
  pure { kind := ← reqStr j "kind", ns := ← reqStr j "ns", name := ← reqStr j "name", age := ← reqInt j "age",
         parents := ← (← reqArr j "parents").mapM dParent, hostnames := ← strs j "hostnames", rules := ← (← reqArr j "rules").mapM dRule }

def dListener (j : Json) : Except String Listener := do
  pure { name := ← reqStr j "name", port := (← reqInt j "port").toNat, proto := ← reqStr j "proto", hasHost := ← reqBool j "hasHost",
         host := ← reqStr j "host", hasTls := ← reqBool j "hasTls", tlsMode := ← reqStr j "tlsMode", tlsOpts := ← reqNat j "tlsOpts",
         certs := ← (← reqArr j "certs").mapM (fun c => do
           pure ({ group := ← reqStr c "group", kind := ← reqStr c "kind", hasNs := ← reqBool c "hasNs", ns := ← reqStr c "ns", name := ← reqStr c "name" } : CertRef)),
         nsFrom := ← reqStr j "from", hasSel := ← reqBool j "hasSel", selMatch := ← strMap j "selMatch", selExprs := ← reqNat j "selExprs",
         hasKinds := ← reqBool j "hasKinds",
         kinds := ← (← reqArr j "kinds").mapM (fun c => do pure (⟨← reqStr c "group", ← reqStr c "kind"⟩ : KindRef)) }

/-- C02's flat scenario (harness/c02/flat.go), same decoding as Driver/C02 and Driver/C06 -/
def dScenario (j : Json) : Except String Scenario := do
  pure { cls := ← reqStr j "class", ctlr := ← reqStr j "ctlr",
         protectedPorts := ← (← reqArr j "protected").mapM (·.getNat?),
         gcs := ← (← reqArr j "gcs").mapM (fun c => do pure (⟨← reqStr c "name", ← reqStr c "ctlr", ← reqInt c "age", ← reqBool c "params"⟩ : GatewayClass)),
         gws := ← (← reqArr j "gws").mapM (fun g => do
           pure ({ ns := ← reqStr g "ns", name := ← reqStr g "name", cls := ← reqStr g "class", age := ← reqInt g "age",
                   addresses := ← reqNat g "addresses", listeners := ← (← reqArr g "listeners").mapM dListener } : Gateway)),
         nss := ← (← reqArr j "nss").mapM (fun n => do pure (⟨← reqStr n "name", ← strMap n "labels"⟩ : Namespace)),
         routes := ← (← reqArr j "routes").mapM dRoute,
         svcs := ← (← reqArr j "svcs").mapM (fun v => do
           pure ({ ns := ← reqStr v "ns", name := ← reqStr v "name",
                   ports := ← (← reqArr v "ports").mapM (fun p => do pure (⟨(← reqInt p "port").toNat, ← reqBool p "ready"⟩ : SvcPort)) } : Svc)),
         grants := ← (← reqArr j "grants").mapM (fun g => do
           pure ({ ns := ← reqStr g "ns",
                   «from» := ← (← reqArr g "from").mapM (fun f => do pure (⟨← reqStr f "group", ← reqStr f "kind", ← reqStr f "ns"⟩ : GrantFrom)),
                   to := ← (← reqArr g "to").mapM (fun t => do pure (⟨← reqStr t "group", ← reqStr t "kind", ← reqBool t "hasName", ← reqStr t "name"⟩ : GrantTo)) } : Grant)),
         secrets := ← (← reqArr j "secrets").mapM (fun x => do pure (⟨← reqStr x "ns", ← reqStr x "name", ← reqBool x "ok"⟩ : Secret)) }



open NGF.Resolver (Slice TargetPort EndpointPort Endpoint AddrType)

def optStrF (j : Json) (k : String) : Except String (Option String) :=
  match optField j k with
  | none => pure none
  | some v => do pure (some (← v.getStr?))

def parseWrittenRef (j : Json) : Except String NGF.RefGrant.BackendRef := do
  let port ← match optField j "port" with | none => pure none | some v => do pure (some (← v.getNat?))
  let weight ← match optField j "weight" with | none => pure none | some v => do pure (some (← v.getInt?))
  return { group := ← optStrF j "group", kind := ← optStrF j "kind", ns := ← optStrF j "ns", name := ← reqStr j "name",
           port := port, weight := weight, nfilters := ← reqNat j "nfilters" }

def parseWrittenObjs (inp : Json) : Except String NGF.RefGrant.Objs := do
  let routes ← (← reqArr inp "routes").mapM fun r => do
    let rules ← (← reqArr r "rules").mapM fun ru => do
      return ({ paths := [], refs := ← (← reqArr ru "refs").mapM parseWrittenRef } : NGF.RefGrant.RRule)
    return ({ kind := .http, ns := ← reqStr r "ns", name := ← reqStr r "name", rules := rules } : NGF.RefGrant.Route)
  let grants ← (← reqArr inp "grants").mapM fun g => do
    let froms ← (← reqArr g "from").mapM fun f => do
      return ({ group := ← reqStr f "group", kind := ← reqStr f "kind", ns := ← reqStr f "ns" } : NGF.RefGrant.GrantFrom)
    let tos ← (← reqArr g "to").mapM fun t => do
      return ({ group := ← reqStr t "group", kind := ← reqStr t "kind", name := ← optStrF t "name" } : NGF.RefGrant.GrantTo)
    return ({ ns := ← reqStr g "ns", name := ← reqStr g "name", froms := froms, tos := tos } : NGF.RefGrant.Grant)
  return { grants := grants, routes := routes, gateways := [], secrets := [] }

def parseAddrType (s : String) : AddrType :=
  if s = "IPv4" then .ipv4 else if s = "IPv6" then .ipv6 else if s = "FQDN" then .fqdn else .other

def parsePort (j : Json) : Except String EndpointPort := do
  let name ← match optField j "name" with | none => pure none | some v => do pure (some (← v.getStr?))
  let port ← match optField j "port" with | none => pure none | some v => do pure (some (← v.getNat?))
  return ⟨name, port⟩

def parseEndpoint (j : Json) : Except String Endpoint := do
  let addrs ← (← reqArr j "addrs").mapM (·.getStr?)
  let ready ← match optField j "ready" with | none => pure none | some v => do pure (some (← v.getBool?))
  return ⟨addrs, ready⟩

def parseSliceObj (j : Json) : Except String NGF.StorePipeline.SliceObj := do
  let label ← match optField j "label" with | none => pure none | some v => do pure (some (← v.getStr?))
  return { name := ← reqStr j "obj",
           slice := { ns := ← reqStr j "ns", svcLabel := label, addrType := parseAddrType (← reqStr j "type"),
                      ports := ← (← reqArr j "ports").mapM parsePort, endpoints := ← (← reqArr j "eps").mapM parseEndpoint } }

def parseSvcPort (j : Json) : Except String NGF.Resolver.SvcPort := do
  let tp ← match optField j "tps", optField j "tpi" with
    | some v, _ => do pure (TargetPort.str (← v.getStr?))
    | none, some v => do pure (TargetPort.int (← v.getNat?))
    | none, none => pure (TargetPort.int 0)
  return ⟨← reqStr j "name", ← reqNat j "port", tp⟩

/-- one cluster state → the cluster of the store model, or why it is outside the fragment -/
def parseState (inp : Json) : Except String (Except String NGF.StorePipeline.PCl) := do
  let flat ← dScenario (← inp.getObjVal? "flat")
  let objs ← parseWrittenObjs inp
  let ports ← (← reqArr inp "ports").mapM fun p => do
    return (⟨← reqStr p "ns", ← reqStr p "name", ← parseSvcPort (← p.getObjVal? "sp")⟩ : NGF.PipelineEndpoints.PortInfo)
  let slices ← (← reqArr inp "slices").mapM parseSliceObj
  return match NGF.PipelineRefsTie.toScenarioR flat objs with
    | .ok base => .ok (NGF.StorePipelineTie.toPCl base ports slices)
    | .error e => .error e

def dNjsMatch (j : Json) : Option NGF.NginxEval.Njs.Match :=
  match j with
  | .obj _ =>
    let any := match j.getObjVal? "any" with | .ok (.bool b) => b | _ => false
    let lst (k : String) : List (List Char) := match j.getObjVal? k with
      | .ok (.arr a) => a.toList.filterMap fun x => match x with | .str y => some y.toList | _ => none
      | _ => []
    some { any := any, method := (optStr j "method").toList, headers := lst "headers", params := lst "params",
           redirectPath := (optStr j "redirectPath").toList }
  | _ => none

def dMatches (text : String) : Except String (List (String × Option (List NGF.NginxEval.Njs.Match))) := do
  if text == "" then return []
  match ← Json.parse text with
  | .obj m => pure (m.toList.map fun (k, v) =>
      match v with
      | .arr a => (k, (a.toList.mapM dNjsMatch))
      | _ => (k, none))
  | _ => throw "matches.json is not an object"

def parseNginx (text : String) : Except String (List NGF.Nginx.Dir) :=
  match NGF.Nginx.parseString text with
  | .ok ds => pure ds
  | .error e => throw s!"nginx parse error {repr e}"

open NGF.StorePipelineTie in
def parseStep (j : Json) : Except String (Option TStep) := do
  let t ← reqStr j "t"
  if t == "restart" then return some (.restart (← reqNat j "state"))
  if t == "ev" then
    match parseKind (← reqStr j "kind") with
    | none => return none
    | some k =>
      return some (.ev { kind := k, key := (optStr j "ns", optStr j "name"), del := optBool j "del", state := ← reqNat j "state",
                         fwd := optBool j "fwd", changed := optBool j "changed" })
  if t == "cut" then
    let hasFiles := optBool j "hasFiles"
    let real : Except String NGF.Pipeline.Conf :=
      if !hasFiles then .error "no files" else do
        let cfg : NGF.NginxEval.Config :=
          { http := ← parseNginx (optStr j "http"), stream := ← parseNginx (optStr j "stream"), matchTab := ← dMatches (optStr j "matches") }
        NGF.PipelineTie.abstractConf cfg
    let ups ← (← reqArr j "upstreams").mapM fun u => do
      pure (← reqStr u "name", sortS (← (← reqArr u "servers").mapM (·.getStr?)))
    let refs ← (← reqArr j "refsvcs").mapM (·.getStr?)
    return some (.cut { hasFiles := hasFiles, real := real, ups := ups.mergeSort (fun a b => a.1 ≤ b.1), refsvcs := sortS refs,
                        ct := (← reqInt j "ct").toNat })
  throw s!"unknown step {t}"

def strsJson (l : List String) : Json := Json.arr (l.map Json.str).toArray

open NGF.StorePipelineTie in
def pipelineLine (line : String) : String :=
  match Json.parse line with
  | .error _ => "bad-op"
  | .ok j =>
    let r : Except String Json := do
      let front ← match ← reqArr j "front" with
        | [a, b] => do pure ((← a.getStr?), (← b.getStr?))
        | _ => throw "front"
      let states ← (← reqArr j "states").mapM parseState
      match states.find? (fun s => match s with | .error _ => true | .ok _ => false) with
      | some (.error why) => return Json.mkObj [("inFragment", false), ("why", why)]
      | _ =>
        let sts : List NGF.StorePipeline.PCl := states.filterMap fun s => match s with | .ok c => some c | .error _ => none
        let steps := (← (← reqArr j "steps").mapM parseStep).filterMap id
        match sts with
        | [] => throw "no states"
        | c0 :: _ =>
          let rep := replay front sts.toArray (NGF.Store.start (NGF.StorePipeline.pBuild true) c0) 0 true steps {}
          return Json.mkObj [("inFragment", true), ("why", ""), ("events", rep.events), ("verdicts", rep.verdicts),
            ("irrelevant", rep.irrelevant), ("cuts", rep.cuts), ("confs", rep.confs), ("rebuilds", rep.rebuilds),
            ("diffs", strsJson rep.diffs), ("echo", strsJson rep.echo), ("errors", strsJson rep.errors)]
    match r with
    | .ok out => out.compress
    | .error e => s!"bad-op {e}"

end NGF.C01Flat

namespace NGF.Store
open NGF.Proto

def driver (args : List String) : IO UInt32 := do
  let stdin ← IO.getStdin
  let stdout ← IO.getStdout
  match args with
  | ["model"] => forEachLine stdin fun l => stdout.putStrLn (modelLine l)
  | ["judge"] => forEachLine stdin fun l => stdout.putStrLn (judgeLine l)
  | ["footprint"] => forEachLine stdin fun l => stdout.putStrLn (footprintLine l)
  | ["watchsvc"] => forEachLine stdin fun l => stdout.putStrLn (watchSvcLine l)
  | ["pipeline"] => forEachLine stdin fun l => stdout.putStrLn (NGF.C01Flat.pipelineLine l)
  | _ => IO.eprintln "usage: C01 model|judge|footprint|watchsvc|pipeline"; return 2
  return 0

end NGF.Store

/-- executable entry point: `ngfdriver_C01 model|judge` -/
def main (args : List String) : IO UInt32 := NGF.Store.driver args
