import NGF.Model.Store
import NGF.Model.StoreHandler
import NGF.Model.StoreJudge
import NGF.Model.Footprint
import NGF.Model.Proto
/-
Driver entry for C01.
  model line : `batches=<batch>|<batch>|…`   batch = `-` | `[!]<ev>,<ev>,…` (`!` = first batch of a restarted
               controller), ev = `<Kind>:<u|d>:<key>:<hasPred><verdict>` — EVERY event handed to `HandleEventBatch`
               (key 0 = the configured special name of the kind; bits `--` = the real handler did not hand the event
               to the change processor, so no predicate answer was observed)
  output     : `pend=<n,…|…> store=<n,…|…> fwd=<n,…|…> emit=<n,…|…> ct=<n,…>`  |  `bad-op` | `bad-table <Kind>`
               (the events go through `parseAndCapture treeHandler`: `fwd` = reached Capture…Change, `emit` = status
               groups issued by the filter callbacks, folded per captured event + tail: `emitRuns`)
  judge line : `inert=<ct:files:status:reloads,…> a=<map> f=<map> sa=<map> sf=<map> fb=<map>`  (map = `k=v,…` | `-`)
  output     : `ok` | `fail <clause> <where>`
-/
namespace NGF.Store
open NGF.Proto

/-- event, observed `hasPred` bit (none = not observed) -/
def parseEv (s : String) : Option (TEvent × Option Bool) :=
  match s.splitOn ":" with
  | [k, op, key, bits] =>
    match key.toNat?, bits.toList with
    | some n, [hp, v] =>
      let obj := if op == "u" then some (some ()) else if op == "d" then some none else none
      obj.map fun o => ({ kind := k, key := n, obj := o, oracle := v == '1' }, if hp == '-' then none else some (hp == '1'))
    | _, _ => none
  | _ => none

def showCols (l : List (List Nat)) : String :=
  "|".intercalate (l.map showNatList)

/-- Replays all batches through the handler layer (`parseAndCapture treeHandler`). -/
def replay : TProc → List String → List BatchTrace → Option String
  | _, [], ts =>
      let ts := ts.reverse
      some s!"pend={showCols (ts.map (·.pend))} store={showCols (ts.map (·.col))} fwd={showCols (ts.map (·.fwd))} emit={showCols (ts.map fun t => emitRuns t.fwd t.emit 0)} ct={showNatList (ts.map (·.ct))}"
  | p, b :: bs, ts =>
      let restart := b.startsWith "!"
      let body := if restart then (b.drop 1).toString else b
      let p0 := if restart then traceInit else p
      let toks := if body == "-" || body == "" then [] else body.splitOn ","
      match toks.mapM parseEv with
      | none => none
      | some evs =>
        -- the kind table: an event must be of a kind registered with the processor or with the handler only, and
        -- the observed `hasPred` bit (where the real processor was asked) must be the table's
        match evs.find? (fun (e, hp) =>
            !(allKinds.contains e.kind || handlerOnlyKinds.contains e.kind) ||
            (match hp with | some b => traceOps.hasPred e.kind != b | none => false)) with
        | some (e, _) => some ("bad-table " ++ e.kind)
        | none =>
          let (p', t) := traceBatchH treeHandler p0 (evs.map (·.1)) {}
          replay p' bs (t :: ts)

def modelLine (line : String) : String :=
  match field (line.splitOn " ") "batches" with
  | some b => (replay traceInit (b.splitOn "|") []).getD "bad-op"
  | none => "bad-op"

/-! ### footprint mode: the referenced sets recomputed by the footprint model from the graph core
  line   : `winner=<nn|-> routes=<v;p+p;b+b>|… sels=<l+l>|… nss=<nn>:<l+l>|… hasgw=<0|1> btps=<ns;n;wk;kind;group;name>|… ls=<proto;ref;allowed>|…`
           (`-` = empty list, `~` = empty string)
           + the fields of `footprintExtra`
  output : `svcs=<…> unref=<…> nss=<…> nssvalid=<…> cms=<…> seccand=<…> nprefs=<…> polrel=<…> polgraph=<…> polfirst=<…>`
           (comma separated, `-` = empty; `nssvalid`/`polfirst` = what the weakened variants would reference) -/

def lst (s : String) (sep : String) : List String :=
  if s == "-" || s == "" then [] else s.splitOn sep

def unTilde (s : String) : String := if s == "~" then "" else s

def showSet (l : List String) : String :=
  if l.isEmpty then "-" else ",".intercalate l.eraseDups

/-- a selector listener: `<valid 0|1>;<label+label>` (a bare label list = valid) -/
def parseNsListener (tok : String) : NGF.Footprint.NsListener :=
  match tok.splitOn ";" with
  | [v, labels] => { valid := v == "1", sel := (lst labels "+").map fun t => (t, "") }
  | _ => { valid := true, sel := (lst tok "+").map fun t => (t, "") }

/-- NginxProxy and NGF policies: `gcref=<-|none|group;kind;name> nps=<name,…> gws=<nn+…> rkeys=<Kind;nn>|… refsvcs=<nn+…>
pols=<key;ns;g^k^n+…>|…`  →  `nprefs=<…> polrel=<…> polgraph=<…>` -/
def footprintExtra (fs : List String) : Option String :=
  open NGF.Footprint in
  match field fs "gcref", field fs "nps", field fs "gws", field fs "rkeys", field fs "refsvcs", field fs "pols" with
  | some gcref, some nps, some gws, some rkeys, some refsvcs, some pols =>
    let gc? : Option (Option (Option ParamsRef)) :=
      if gcref == "-" then some none
      else if gcref == "none" then some (some none)
      else match gcref.splitOn ";" with
        | [g, k, n] => some (some (some { group := unTilde g, kind := unTilde k, name := unTilde n }))
        | _ => none
    let routes? := (lst rkeys "|").mapM fun r =>
      match r.splitOn ";" with
      | [k, nn] => some (k, nn)
      | _ => none
    let parseRef : String → Option TargetRef := fun t =>
      match t.splitOn "^" with
      | [g, k, n] => some { group := unTilde g, kind := unTilde k, name := unTilde n }
      | _ => none
    let pols? : Option (List (String × PolicyM)) := (lst pols "|").mapM fun q =>
      match q.splitOn ";" with
      | [key, ns, refs] =>
        ((lst refs "+").mapM parseRef).map fun rs => (key, ({ ns := unTilde ns, refs := rs, payload := 0 } : PolicyM))
      | _ => none
    match gc?, routes?, pols? with
    | some gc, some routes, some ps =>
      let npc : NpCore := { gatewayClass := gc }
      let pc : PolCore := { hasWinner := !(lst gws "+").isEmpty, gateways := lst gws "+", routes := routes,
                            refSvcs := lst refsvcs "+" }
      let nprefs := ((lst nps ",").map unTilde).filter (npReferenced npc)
      let polrel := (ps.filter fun (_, q) => policyInGraph pc q || policyRelevant pc q).map (·.1)
      let polgraph := (ps.filter fun (_, q) => policyInGraph pc q).map (·.1)
      let polfirst := (ps.filter fun (_, q) => policyRelevantFirst pc q).map (·.1)
      some s!"nprefs={showSet nprefs} polrel={showSet polrel} polgraph={showSet polgraph} polfirst={showSet polfirst}"
    | _, _, _ => none
  | _, _, _, _, _, _ => none

open NGF.Footprint in
def footprintLine (line : String) : String :=
  let fs := line.splitOn " "
  match field fs "winner", field fs "routes", field fs "sels", field fs "nss", field fs "hasgw", field fs "btps",
        field fs "ls" with
  | some w, some rs, some sels, some nss, some hg, some btps, some ls =>
    let routes? := (lst rs "|").mapM fun r =>
      match r.splitOn ";" with
      | [v, ps, bs] => some ({ valid := v == "1", parents := lst ps "+", backends := (lst bs "+").map unTilde } : RouteM)
      | _ => none
    let btps? := (lst btps "|").mapM fun b =>
      match b.splitOn ";" with
      | [ns, n, wk, kind, group, name] =>
        n.toNat?.map fun k => ({ ns := ns, nrefs := k, wellKnown := wk == "1", kind := unTilde kind, group := unTilde group,
                                 name := name } : BtpM)
      | _ => none
    let ls? := (lst ls "|").mapM fun l =>
      match l.splitOn ";" with
      | [proto, ref, al] => some ({ protocol := proto, certRef := ref, allowed := al == "1" } : ListenerM)
      | _ => none
    let nss? := (lst nss "|").mapM fun n =>
      match n.splitOn ":" with
      | [nn, labels] => some (nn, (lst labels "+").map fun t => (t, ""))
      | _ => none
    match routes?, btps?, ls?, nss? with
    | some routes, some bt, some lsn, some nsl =>
      let core : SvcCore := { winner := if w == "-" then none else some w, routes := routes }
      let refd := referencedServices core
      let unref := (readServices core).filter (!refd.contains ·)
      let nc : NsCore := { listeners := (lst sels "|").map parseNsListener }
      let base := s!"svcs={showSet refd} unref={showSet unref} nss={showSet (referencedNamespaces nc nsl)} nssvalid={showSet ((nsl.filter fun p => nsReferencedValidOnly nc p.2).map (·.1))} cms={showSet (referencedConfigMaps { hasGateway := hg == "1", btps := bt })} seccand={showSet (secretCandidates { listeners := lsn })}"
      match footprintExtra fs with
      | some x => base ++ " " ++ x
      | none => "bad-op"
    | _, _, _, _ => "bad-op"
  | _, _, _, _, _, _, _ => "bad-op"

/-! ### watchsvc mode: `ServicePortsChangedPredicate.Update` as modelled (`Footprint.watchSvc`)
  line   : `old=<port:name:target+…>/<ipFamily+…> new=…`   output : `0` | `1` -/
open NGF.Footprint in
def parseSvc (s : String) : Option Svc :=
  match s.splitOn "/" with
  | [ps, fam] =>
    ((lst ps "+").mapM fun (p : String) =>
      match p.splitOn ":" with
      | [n, name, t] => n.toNat?.map fun k => ({ port := k, name := unTilde name, target := unTilde t } : SvcPort)
      | _ => none).map fun ports => { ports := ports, ipFamilies := lst fam "+" }
  | _ => none

open NGF.Footprint in
def watchSvcLine (line : String) : String :=
  let fs := line.splitOn " "
  match field fs "old" >>= parseSvc, field fs "new" >>= parseSvc with
  | some o, some n => if watchSvc o n then "1" else "0"
  | _, _ => "bad-op"

def driver (args : List String) : IO UInt32 := do
  let stdin ← IO.getStdin
  let stdout ← IO.getStdout
  match args with
  | ["model"] => forEachLine stdin fun l => stdout.putStrLn (modelLine l)
  | ["judge"] => forEachLine stdin fun l => stdout.putStrLn (judgeLine l)
  | ["footprint"] => forEachLine stdin fun l => stdout.putStrLn (footprintLine l)
  | ["watchsvc"] => forEachLine stdin fun l => stdout.putStrLn (watchSvcLine l)
  | _ => IO.eprintln "usage: C01 model|judge|footprint|watchsvc"; return 2
  return 0

end NGF.Store

/-- executable entry point: `ngfdriver_C01 model|judge` -/
def main (args : List String) : IO UInt32 := NGF.Store.driver args
