import NGF.Model.Store
import NGF.Model.StoreJudge
import NGF.Model.Proto
/-
Driver entry for C01.
  model line : `batches=<batch>|<batch>|…`   batch = `-` | `[!]<ev>,<ev>,…` (`!` = first batch of a restarted
               controller), ev = `<Kind>:<u|d>:<key>:<hasPred><verdict>`
  output     : `pend=<n,…|…> store=<n,…|…> ct=<n,…>`  |  `bad-op` | `bad-table <Kind>`
  judge line : `inert=<ct:files:status:reloads,…> a=<map> f=<map> sa=<map> sf=<map> fb=<map>`  (map = `k=v,…` | `-`)
  output     : `ok` | `fail <clause> <where>`
-/
namespace NGF.Store
open NGF.Proto

def parseEv (s : String) : Option (TEvent × Bool) :=
  match s.splitOn ":" with
  | [k, op, key, bits] =>
    match key.toNat?, bits.toList with
    | some n, [hp, v] =>
      let obj := if op == "u" then some (some ()) else if op == "d" then some none else none
      obj.map fun o => ({ kind := k, key := n, obj := o, oracle := v == '1' }, hp == '1')
    | _, _ => none
  | _ => none

def showCols (l : List (List Nat)) : String :=
  "|".intercalate (l.map showNatList)

/-- Replays all batches. -/
def replay : TProc → List String → List (List Nat) → List (List Nat) → List Nat → Option String
  | _, [], pend, col, cts =>
      some s!"pend={showCols pend.reverse} store={showCols col.reverse} ct={showNatList cts.reverse}"
  | p, b :: bs, pend, col, cts =>
      let restart := b.startsWith "!"
      let body := if restart then (b.drop 1).toString else b
      let p0 := if restart then traceInit else p
      let toks := if body == "-" || body == "" then [] else body.splitOn ","
      match toks.mapM parseEv with
      | none => none
      | some evs =>
        match evs.find? (fun (e, hp) => traceOps.hasPred e.kind != hp || !allKinds.contains e.kind) with
        | some (e, _) => some ("bad-table " ++ e.kind)
        | none =>
          let (p', pd, cl, ct) := traceBatch p0 (evs.map (·.1)) [] []
          replay p' bs (pd :: pend) (cl :: col) (ct :: cts)

def modelLine (line : String) : String :=
  match field (line.splitOn " ") "batches" with
  | some b => (replay traceInit (b.splitOn "|") [] [] []).getD "bad-op"
  | none => "bad-op"

def driver (args : List String) : IO UInt32 := do
  let stdin ← IO.getStdin
  let stdout ← IO.getStdout
  match args with
  | ["model"] => forEachLine stdin fun l => stdout.putStrLn (modelLine l)
  | ["judge"] => forEachLine stdin fun l => stdout.putStrLn (judgeLine l)
  | _ => IO.eprintln "usage: C01 model|judge"; return 2
  return 0

end NGF.Store

/-- executable entry point: `ngfdriver_C01 model|judge` -/
def main (args : List String) : IO UInt32 := NGF.Store.driver args
