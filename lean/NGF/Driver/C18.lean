import NGF.Model.Provisioner
import NGF.Model.Proto
/-
Driver entry for C18.

  model line :  `gc=<name> tmpl=<arg|arg|…> hist=<batch;batch;…>`
                batch = `<ev,ev,…>@<key,key,…>`   ("-" = empty list); the part after `@` is the order in which
                the real handler ranged over the Gateways without Deployments (observed), `step`'s `order`
                ev    = ug:<ns>/<name>:<class> | dg:<ns>/<name> | uc:<class> | dc:<class> | crd
  output     :  one observation per batch joined by ';' (`step`, the code in the tree) + ` ## ` + the same for
                `stepPreFix` (removal loop before commit bb91ad6, regression detector):  `P=<key>><dep>,…&D=<name>^<sel>^<pod>^<arg|arg…>,…&S=<gc>:<type>/<T|F>/<reason>+…,…&G=<key>:<class>,…&C=<gc>,…&N=<nextID>&X=<crash|->`
  dns line   :  `<ns>/<name>`  → `<dnsLabel ns 0|1><dnsSubdomain name 0|1>` (compared with apimachinery's validators)
  judge line :  `gc=<name> [tmpl=<arg|arg|…>] snaps=<snap;snap;…>`  — the CLUSTER as listed through the fake client after each
                batch; tmpl = container args of the manifest as yaml.Unmarshal yields them (read by the harness, not by the handler)
                snap = `G=<key>:<class>,…&C=<gc>:<ours 0|1>:<type>/<T|F>/<reason>+…,…&D=<name>^<sel>^<pod>^<args>,…&X=<panic class|->`
  output     :  `ok` | `ok precondition` | `fail <clause>,<clause>…`
-/
namespace NGF.Prov
open NGF.Proto

def str (s : Str) : String := String.ofList s

def listOf (s : String) (sep : String) : List String :=
  if s == "-" || s == "" then [] else s.splitOn sep

def showList (l : List String) (sep : String) : String :=
  if l.isEmpty then "-" else sep.intercalate l

def parseKey (s : String) : Option Key :=
  match s.splitOn "/" with
  | [a, b] => some ⟨a.toList, b.toList⟩
  | _ => none

def parseEv (s : String) : Option Ev :=
  match s.splitOn ":" with
  | ["ug", k, c] => (parseKey k).map (fun k => Ev.upsertGw k c.toList)
  | ["dg", k] => (parseKey k).map Ev.deleteGw
  | ["uc", n] => some (.upsertGC n.toList)
  | ["dc", n] => some (.deleteGC n.toList)
  | ["crd"] => some .crd
  | _ => none

def parseBatch (s : String) : Option (List Ev × List Key) :=
  match s.splitOn "@" with
  | [e, o] => do
    let evs ← (listOf e ",").mapM parseEv
    let ord ← (listOf o ",").mapM parseKey
    pure (evs, ord)
  | _ => none

/-- insertion sort on the rendered strings (canonical order of map dumps) -/
def insertSorted (a : String) : List String → List String
  | [] => [a]
  | b :: l => if a < b then a :: b :: l else b :: insertSorted a l
def sortStrs (l : List String) : List String := l.foldr insertSorted []

def showCond (c : Cond) : String := s!"{str c.type}/{if c.status then "T" else "F"}/{str c.reason}"

def showCrash : Option Crash → String
  | none => "-"
  | some .gcAbsent => "gc-must-exist"
  | some .createFailed => "create-failed"
  | some .deleteFailed => "delete-failed"

def showState (s : State) : String :=
  let p := s.prov.map (fun x => s!"{str (gwString x.1)}>{str x.2.name}")
  let d := s.cluster.map (fun d => s!"{str d.name}^{str d.selApp}^{str d.podApp}^{showList (d.args.map str) "|"}")
  let st := sortStrs (s.statuses.map (fun x => s!"{str x.1}:{showList (x.2.map showCond) "+"}"))
  let g := sortStrs (s.gws.map (fun x => s!"{str (gwString x.1)}:{str x.2}"))
  let c := sortStrs (s.gcs.map str)
  s!"P={showList p ","}&D={showList d ","}&S={showList st ","}&G={showList g ","}&C={showList c ","}&N={s.nextID}&X={showCrash s.crashed}"

/-- observations after every batch -/
def trace (stp : State → List Ev → List Key → State) : State → List (List Ev × List Key) → List String
  | _, [] => []
  | s, (b, o) :: rest => let s' := stp s b o; showState s' :: trace stp s' rest

def modelLine (line : String) : String :=
  let fs := line.splitOn " "
  match field fs "gc", field fs "tmpl", field fs "hist" with
  | some gc, some tm, some h =>
    match (listOf h ";").mapM parseBatch with
    | some hist =>
      let cfg : Cfg := ⟨gc.toList, (listOf tm "|").map String.toList⟩
      showList (trace (step cfg) init hist) ";" ++ " ## " ++ showList (trace (stepPreFix cfg) init hist) ";"
    | none => "bad-op"
  | _, _, _ => "bad-op"

/-! ### judge: the property evaluated on listings of the real cluster -/

structure JDep where
  name : String
  sel  : String
  pod  : String
  args : List String

structure JGC where
  name  : String
  ours  : Bool
  conds : List (String × String × String)

structure Snap where
  gws   : List (String × String)
  gcs   : List JGC
  deps  : List JDep
  panic : String

def parseJDep (s : String) : Option JDep :=
  match s.splitOn "^" with
  | [n, a, b, g] => some ⟨n, a, b, listOf g "|"⟩
  | _ => none

def parseCond (s : String) : Option (String × String × String) :=
  match s.splitOn "/" with
  | [t, st, r] => some (t, st, r)
  | _ => none

def parseJGC (s : String) : Option JGC :=
  match s.splitOn ":" with
  | [n, o, c] => ((listOf c "+").mapM parseCond).map (fun cs => ⟨n, o == "1", cs⟩)
  | _ => none

def parseGw (s : String) : Option (String × String) :=
  match s.splitOn ":" with
  | [k, c] => some (k, c)
  | _ => none

def parseSnap (s : String) : Option Snap :=
  let fs := s.splitOn "&"
  match field fs "G", field fs "C", field fs "D", field fs "X" with
  | some g, some c, some d, some x => do
    let gws ← (listOf g ",").mapM parseGw
    let gcs ← (listOf c ",").mapM parseJGC
    let deps ← (listOf d ",").mapM parseJDep
    pure ⟨gws, gcs, deps, x⟩
  | _, _, _, _ => none

def gwFlagS : String := "--gateway="
def lockFlagS : String := "--leader-election-lock-name="
def updFlagS : String := "--update-gatewayclass-status=false"
def updPrefixS : String := "--update-gatewayclass-status="

def lockArgs (args : List String) : List String := args.filter (·.startsWith lockFlagS)

/-- the args that `prepareDeployment` must hand through untouched -/
def plainArgs (args : List String) : List String :=
  args.filter (fun a => !a.startsWith gwFlagS && !a.startsWith updPrefixS && !a.startsWith lockFlagS)

/-- pairs (i<j) of Deployments of DIFFERENT Gateways that carry a common lock-name arg; `sameName` selects the pairs
whose Gateways have the same name (in different namespaces) -/
def sharedLock (deps : List (String × List String)) (sameName : Bool) : Bool :=
  match deps with
  | [] => false
  | (t, l) :: rest =>
    rest.any (fun (t', l') => t != t' && l.any (fun a => l'.contains a) &&
      (((t.splitOn "/").getLast! == (t'.splitOn "/").getLast!) == sameName)) || sharedLock rest sameName

def targets (d : JDep) : List String :=
  (d.args.filter (·.startsWith gwFlagS)).map (fun a => (a.drop gwFlagS.length).toString)

def nameOfKey (k : String) : String := (k.splitOn "/").getLast!

def allDistinct : List String → Bool
  | [] => true
  | a :: l => !l.contains a && allDistinct l

/-- clauses violated by one listing; `prev` is the listing after the previous batch -/
def judgeSnap (gc : String) (tmpl : Option (List String)) (prev : Option Snap) (s : Snap) : List String :=
  let classGws := (s.gws.filter (·.2 == gc)).map (·.1)
  let tg := s.deps.map targets
  let cnt (k : String) : Nat := (tg.filter (fun t => t == [k])).length
  let c1 := if classGws.any (fun k => cnt k == 0) then ["deployment-missing"] else []
  let c2 := if s.gws.any (fun g => cnt g.1 > 1) then ["duplicate-deployment"] else []
  let perDep (d : JDep) : List String :=
    match targets d with
    | [t] =>
      (match s.gws.find? (·.1 == t) with
       | none => ["deployment-for-absent-gateway"]
       | some g =>
         if g.2 == gc then [] else
         if (prev.map (fun p => p.deps.any (·.name == d.name))).getD false
         then ["deployment-kept-after-class-change"] else ["deployment-for-other-class"]) ++
      (if d.args.contains updFlagS then [] else ["missing-update-status-flag"]) ++
      (if (d.args.filter (·.startsWith lockFlagS)).all (· == lockFlagS ++ nameOfKey t) then []
       else ["lock-name-not-of-its-gateway"]) ++
      (if (d.args.filter (·.startsWith updPrefixS)).length == 1 then [] else ["update-status-flag-count"]) ++
      (match tmpl with
       | none => []
       | some tm =>
         (if plainArgs d.args == plainArgs tm then [] else ["template-args-not-preserved"]) ++
         (if (lockArgs d.args).length == (lockArgs tm).length then [] else ["lock-name-arg-count"]))
    | _ => ["bad-gateway-arg"]
  let single := s.deps.filterMap (fun d => match targets d with | [t] => some (t, lockArgs d.args) | _ => none)
  let c3 := s.deps.flatMap perDep ++
    (if sharedLock single true then ["lock-name-shared-across-namespaces"] else []) ++
    (if sharedLock single false then ["lock-name-shared"] else [])
  let c4 := if allDistinct (s.deps.map (·.name)) then [] else ["name-not-unique"]
  let c5 := if allDistinct (s.deps.map (·.sel)) then [] else ["selector-not-unique"]
  let c6 := if s.deps.all (fun d => d.sel == d.pod) then [] else ["selector-pod-label-mismatch"]
  let perGC (g : JGC) : List String :=
    if !g.ours then (if g.conds.isEmpty then [] else ["foreign-class-status-written"]) else
    match g.conds.filter (·.1 == "Accepted") with
    | [(_, st, r)] =>
      if g.name == gc then (if st == "T" then [] else ["class-not-accepted"])
      else if st == "T" then ["other-class-accepted"]
      else if r == "GatewayClassConflict" then [] else ["conflict-reason-missing"]
    | _ => ["accepted-condition-count"]
  let c7 := s.gcs.flatMap perGC
  c1 ++ c2 ++ c3 ++ c4 ++ c5 ++ c6 ++ c7

def hasGC (gc : String) (s : Snap) : Bool := s.gcs.any (fun g => g.name == gc && g.ours)

/-- fold over the listings; `seen` = the configured class existed in an earlier listing -/
def judgeAll (gc : String) (tmpl : Option (List String)) : Option Snap → Bool → List Snap → List String × Bool
  | _, _, [] => ([], false)
  | prev, seen, s :: rest =>
    if s.panic != "-" then
      if s.panic == "gc-must-exist" && !hasGC gc s then
        if seen then (["panic-configured-gatewayclass-deleted"], false) else ([], true)
      else (["panic:" ++ s.panic], false)
    else
      let here := judgeSnap gc tmpl prev s
      let (r, pre) := judgeAll gc tmpl (some s) (seen || hasGC gc s) rest
      (here ++ r, pre)

def judgeLine (line : String) : String :=
  let fs := line.splitOn " "
  match field fs "gc", field fs "snaps" with
  | some gc, some sn =>
    match (listOf sn ";").mapM parseSnap with
    | some snaps =>
      let (cl, pre) := judgeAll gc ((field fs "tmpl").map (listOf · "|")) none false snaps
      let cl := cl.eraseDups
      if cl.isEmpty then (if pre then "ok precondition" else "ok") else "fail " ++ ",".intercalate cl
    | none => "bad-op"
  | _, _ => "bad-op"

def dnsLine (line : String) : String :=
  match parseKey line with
  | some k => (if dnsLabel k.ns then "1" else "0") ++ (if dnsSubdomain k.name then "1" else "0")
  | none => "bad-op"

def driver (args : List String) : IO UInt32 := do
  let stdin ← IO.getStdin
  let stdout ← IO.getStdout
  match args with
  | ["model"] => forEachLine stdin fun l => stdout.putStrLn (modelLine l)
  | ["judge"] => forEachLine stdin fun l => stdout.putStrLn (judgeLine l)
  | ["dns"] => forEachLine stdin fun l => stdout.putStrLn (dnsLine l)
  | _ => IO.eprintln "usage: C18 model|judge|dns"; return 2
  return 0

end NGF.Prov

/-- executable entry point: `ngfdriver_C18 model|judge` -/
def main (args : List String) : IO UInt32 := NGF.Prov.driver args
