import Lean.Data.Json
import NGF.Spec.WellFormedConf
import NGF.Model.Mangle
import NGF.Model.Render
import NGF.Model.RenderTie
import NGF.Model.RenderTlsTie
import NGF.Model.Proto
/-
Driver entry for C03.   ngfdriver_C03 judge | model | render | rendertls
Input: the JSON lines of harness/cmd/c03 (see harness/c03/run.go `LineJ`, harness/c03/fragment.go `FragJ`).
  judge : static lines are remembered (per plus flag) -> `{"static":true}`;
          case lines -> {"issues":[{"c":clause,"d":detail}…],"wf":[…],"lexdiff":[…],"tokens":n,"dirs":n}
          (the WellFormedConf judge on static ∪ generated files; `wf` = the small structural judge Render.wfDirs on
          the same http.conf / matches.json; the Lean lexer against crossplane's tokens)
  model : case lines -> {"diffs":[…],"n":k}  the Mangle model against the real names observed
  render: fragment lines {"id","flat","http","matches"} -> translation validation of Model/Render
          (RenderTie.tie): {"inFragment","why","namesSafe","equal","diff","matchesEqual",…,"wfModel":[…],"wfReal":[…]}
  rendertls: lines {"id","flat","http","matches","secrets","sfiles"} of `-fragment-tls` -> RenderTlsTie.tie (SSL servers)
-/
namespace NGF.C03Driver
open Lean NGF.WF NGF.Nginx

def getStr (j : Json) (k : String) : String := (j.getObjValAs? String k).toOption.getD ""
def getBool (j : Json) (k : String) : Bool := (j.getObjValAs? Bool k).toOption.getD false
def getArr (j : Json) (k : String) : Array Json := ((j.getObjVal? k).toOption.bind fun v => v.getArr?.toOption).getD #[]

def filesOf (j : Json) : List (String × String) :=
  (getArr j "files").toList.map fun f => (getStr f "p", getStr f "t")

/-- paths that exist in the container image but are neither generated nor in the repository -/
def imagePaths : List String := [
  "/usr/lib/nginx/modules/njs/httpmatches.js", "/etc/ssl/cert.pem", "/usr/lib/nginx/modules/ngx_http_js_module.so",
  "modules/ngx_otel_module.so"]

def matchKeysOf (files : List (String × String)) : Except String (List (String × List String)) :=
  match files.find? (·.1 == "/etc/nginx/conf.d/matches.json") with
  | none => .ok []
  | some (_, t) =>
    match Json.parse t with
    | .error e => .error e
    | .ok j =>
      match j.getObj? with
      | .error e => .error e
      | .ok o => .ok (o.toList.map fun (k, v) =>
          (k, (v.getArr?.toOption.getD #[]).toList.map fun m => getStr m "redirectPath"))

def tokStr : Tok → String
  | .word s q => (if q then "q:" else "b:") ++ String.ofList s
  | .semi => "b:;"
  | .open => "b:{"
  | .close => "b:}"

/-- crossplane does not resolve escapes inside tokens; compare modulo the copy loop of ngx_conf_read_token -/
def normXP (s : String) : String :=
  if s.startsWith "q:" || s.startsWith "b:" then
    (s.take 2).toString ++ String.ofList (unescape (s.drop 2).toString.toList)
  else s

def lexCompare (path text : String) (xp : List String) : Option String × Nat :=
  match lex text.toList with
  | .error e => (if xp.any (·.startsWith "ERR:") then none else some (path ++ ": lean lex error " ++ reprStr e ++ ", crossplane none"), 0)
  | .ok ts =>
    let mine := ts.map tokStr
    let theirs := xp.map normXP
    if mine == theirs then (none, mine.length)
    else
      let idx := ((mine.zip theirs).takeWhile fun (a, b) => a == b).length
      (some s!"{path}: token {idx}: lean {mine.getD idx "<end>"} / crossplane {theirs.getD idx "<end>"}", mine.length)

partial def countDirs : List Dir → Nat
  | [] => 0
  | d :: ds => 1 + (match d.block with | some ch => countDirs ch | none => 0) + countDirs ds

def judgeCase (static : List (String × String)) (j : Json) : Json :=
  let files := filesOf j
  match matchKeysOf files with
  | .error e => Json.mkObj [("issues", Json.arr #[Json.mkObj [("c", "matches-json-invalid"), ("d", e)]])]
  | .ok mk =>
    let fs : FileSet := { files := static ++ files, imagePaths := imagePaths, matchKeys := mk }
    let issues := judge fs
    let xp := (j.getObjVal? "xp").toOption.getD (Json.mkObj [])
    -- the harness sends crossplane's tokens once per distinct file content
    let cmp := (files.filter fun f => f.1.endsWith ".conf" && (xp.getObjVal? f.1).toOption.isSome).map fun f =>
      lexCompare f.1 f.2 ((getArr xp f.1).toList.map fun t => t.getStr?.toOption.getD "")
    let ndirs : Nat := (files.filter fun f => f.1.endsWith ".conf").foldl (init := 0) fun n f =>
      match parse f.2.toList with | .ok ds => n + countDirs ds | .error _ => n
    let ntoks : Nat := (cmp.map (·.2)).foldl (init := 0) (· + ·)
    -- the small structural judge of Model/Render on the same http.conf (the clauses the render theorems are about)
    let wf : List Issue := match files.find? (·.1 == "/etc/nginx/conf.d/http.conf") with
      | none => []
      | some (_, t) =>
        match parse t.toList with
        | .ok ds => NGF.Render.wfDirs ds (mk.map fun km => (km.1.toList, km.2.map String.toList))
        | .error _ => []
    Json.mkObj [
      ("issues", Json.arr (issues.map fun i => Json.mkObj [("c", i.clause), ("d", i.detail)]).toArray),
      ("wf", Json.arr (wf.map fun i => Json.mkObj [("c", i.clause), ("d", i.detail)]).toArray),
      ("lexdiff", Json.arr ((cmp.filterMap (·.1)).map Json.str).toArray),
      ("tokens", toJson ntoks),
      ("dirs", toJson ndirs)]

open NGF.Mangle in
def modelName (k : String) (a : List String) : Option String :=
  let c (s : String) := s.toList
  let o (l : List Char) := some (String.ofList l)
  match k, a with
  | "group", [ns, n, i] => i.toNat?.bind fun i => o (groupName (c ns) (c n) i)
  | "safevar", [s] => o (safeVar (c s))
  | "upstream", [ns, n, p] => p.toNat?.bind fun p => o (upstreamName (c ns) (c n) p)
  | "keypairfile", [ns, n] => o (pemFile (c ns) (c n))
  | "bundlefile", [ns, n] => o (bundleFile (c ns) (c n))
  | "cspfile", [ns, n] => o (cspFile (c ns) (c n))
  | "socktls", [p, h] => p.toNat?.bind fun p => o (sockTLS p (c h))
  | "sockhttps", [p] => p.toNat?.bind fun p => o (sockHTTPS p)
  | "passvar", [p] => p.toNat?.bind fun p => o (passVar p)
  | "addhdrvar", [n] => o (addHdrVar (c n))
  | "internalloc", [i, j] => i.toNat?.bind fun i => j.toNat?.bind fun j => o (internalLocPath i j)
  | "rewriteprefix", [r, p] => o (mainRewritePrefix (c r) (c p))
  | _, _ => none

def modelCase (j : Json) : Json :=
  let names := (getArr j "names").toList
  let diffs := names.filterMap fun n =>
    let k := getStr n "k"
    let a := (getArr n "a").toList.map fun x => x.getStr?.toOption.getD ""
    let real := getStr n "real"
    match modelName k a with
    | none => some s!"{k} {a}: model has no such mangling"
    | some m => if m == real then none else some s!"{k} {a}: real {real} / model {m}"
  Json.mkObj [("diffs", Json.arr (diffs.map Json.str).toArray), ("n", toJson names.length)]


/-! ### `render` mode: the flat scenario of harness/c02 (copied decoders of Driver/C02) and the real files -/
namespace Flat
open NGF.Spec.GatewayAPI

def str (j : Json) (k : String) : Except String String := do (← j.getObjVal? k).getStr?
def nat (j : Json) (k : String) : Except String Nat := do (← j.getObjVal? k).getNat?
def int (j : Json) (k : String) : Except String Int := do (← j.getObjVal? k).getInt?
def bool (j : Json) (k : String) : Except String Bool := do (← j.getObjVal? k).getBool?
def arr (j : Json) (k : String) : Except String (List Json) := do
  match j.getObjVal? k with
  | .ok v => if v.isNull then pure [] else return (← v.getArr?).toList
  | .error _ => pure []
def strs (j : Json) (k : String) : Except String (List String) := do (← arr j k).mapM (·.getStr?)
def strMap (j : Json) (k : String) : Except String (List (String × String)) := do
  match j.getObjVal? k with
  | .ok (.obj m) => m.toList.mapM fun (a, b) => do pure (a, ← b.getStr?)
  | _ => pure []

def dKV (j : Json) : Except String KV := do pure ⟨← str j "type", ← str j "name", ← str j "value"⟩
def dHeader (j : Json) : Except String Header := do pure ⟨← str j "name", ← str j "value"⟩

def dMatch (j : Json) : Except String Match := do
  pure { ptype := ← str j "ptype", pvalue := ← str j "pvalue", method := ← str j "method",
         headers := ← (← arr j "headers").mapM dKV, query := ← (← arr j "query").mapM dKV,
         hasGm := ← bool j "hasGm", gmType := ← str j "gmType", hasService := ← bool j "hasService",
         service := ← str j "service", hasGMethod := ← bool j "hasGMethod", gmethod := ← str j "gmethod" }

def dFilter (j : Json) : Except String Filter := do
  pure { type := ← str j "type", present := ← bool j "present", scheme := ← str j "scheme", hostname := ← str j "hostname",
         hasPort := ← bool j "hasPort", port := ← nat j "port", code := ← nat j "code", pathType := ← str j "pathType",
         pathValue := ← str j "pathValue", set := ← (← arr j "set").mapM dHeader, add := ← (← arr j "add").mapM dHeader,
         remove := ← strs j "remove" }

def dBackend (j : Json) : Except String Backend := do
  pure { group := ← str j "group", kind := ← str j "kind", hasNs := ← bool j "hasNs", ns := ← str j "ns", name := ← str j "name",
         hasPort := ← bool j "hasPort", port := (← int j "port").toNat, weight := ← int j "weight", nfilters := ← nat j "nfilters" }

def dRule (j : Json) : Except String Rule := do
  pure { matches_ := ← (← arr j "matches").mapM dMatch, filters := ← (← arr j "filters").mapM dFilter,
         backends := ← (← arr j "backends").mapM dBackend }

def dParent (j : Json) : Except String ParentRef := do
  pure { group := ← str j "group", kind := ← str j "kind", hasNs := ← bool j "hasNs", ns := ← str j "ns", name := ← str j "name",
         hasSection := ← bool j "hasSection", sectionName := ← str j "section", hasPort := ← bool j "hasPort" }

def dRoute (j : Json) : Except String Route := do
  pure { kind := ← str j "kind", ns := ← str j "ns", name := ← str j "name", age := ← int j "age",
         parents := ← (← arr j "parents").mapM dParent, hostnames := ← strs j "hostnames", rules := ← (← arr j "rules").mapM dRule }

def dListener (j : Json) : Except String Listener := do
  pure { name := ← str j "name", port := (← int j "port").toNat, proto := ← str j "proto", hasHost := ← bool j "hasHost",
         host := ← str j "host", hasTls := ← bool j "hasTls", tlsMode := ← str j "tlsMode", tlsOpts := ← nat j "tlsOpts",
         certs := ← (← arr j "certs").mapM (fun c => do
           pure ({ group := ← str c "group", kind := ← str c "kind", hasNs := ← bool c "hasNs", ns := ← str c "ns", name := ← str c "name" } : CertRef)),
         nsFrom := ← str j "from", hasSel := ← bool j "hasSel", selMatch := ← strMap j "selMatch", selExprs := ← nat j "selExprs",
         hasKinds := ← bool j "hasKinds",
         kinds := ← (← arr j "kinds").mapM (fun c => do pure (⟨← str c "group", ← str c "kind"⟩ : KindRef)) }

def dScenario (j : Json) : Except String Scenario := do
  pure { cls := ← str j "class", ctlr := ← str j "ctlr",
         protectedPorts := ← (← arr j "protected").mapM (·.getNat?),
         gcs := ← (← arr j "gcs").mapM (fun c => do pure (⟨← str c "name", ← str c "ctlr", ← int c "age", ← bool c "params"⟩ : GatewayClass)),
         gws := ← (← arr j "gws").mapM (fun g => do
           pure ({ ns := ← str g "ns", name := ← str g "name", cls := ← str g "class", age := ← int g "age",
                   addresses := ← nat g "addresses", listeners := ← (← arr g "listeners").mapM dListener } : Gateway)),
         nss := ← (← arr j "nss").mapM (fun n => do pure (⟨← str n "name", ← strMap n "labels"⟩ : Namespace)),
         routes := ← (← arr j "routes").mapM dRoute,
         svcs := ← (← arr j "svcs").mapM (fun v => do
           pure ({ ns := ← str v "ns", name := ← str v "name",
                   ports := ← (← arr v "ports").mapM (fun p => do pure (⟨(← int p "port").toNat, ← bool p "ready"⟩ : SvcPort)) } : Svc)),
         grants := ← (← arr j "grants").mapM (fun g => do
           pure ({ ns := ← str g "ns",
                   «from» := ← (← arr g "from").mapM (fun f => do pure (⟨← str f "group", ← str f "kind", ← str f "ns"⟩ : GrantFrom)),
                   to := ← (← arr g "to").mapM (fun t => do pure (⟨← str t "group", ← str t "kind", ← bool t "hasName", ← str t "name"⟩ : GrantTo)) } : Grant)),
         secrets := ← (← arr j "secrets").mapM (fun x => do pure (⟨← str x "ns", ← str x "name", ← bool x "ok"⟩ : Secret)) }

def optStr (j : Json) (k : String) : String := match j.getObjVal? k with | .ok (.str x) => x | _ => ""

def dNjsMatch (j : Json) : Except String NGF.NginxEval.Njs.Match :=
  match j with
  | .obj _ =>
    let any := match j.getObjVal? "any" with | .ok (.bool b) => b | _ => false
    let lst (k : String) : List (List Char) := match j.getObjVal? k with
      | .ok (.arr a) => a.toList.filterMap fun x => match x with | .str y => some y.toList | _ => none
      | _ => []
    .ok { any := any, method := (optStr j "method").toList, headers := lst "headers", params := lst "params",
          redirectPath := (optStr j "redirectPath").toList }
  | _ => .error "match is not an object"

def dMatches (text : String) : Except String (List (String × List NGF.NginxEval.Njs.Match)) := do
  match ← Json.parse text with
  | .obj m => m.toList.mapM fun (k, v) => do
      match v with
      | .arr a => pure (k, ← a.toList.mapM dNjsMatch)
      | _ => throw ("matches.json: value of " ++ k ++ " is not a list")
  | .null => pure []
  | _ => throw "matches.json is not an object"

end Flat

def issuesJ (is : List Issue) : Json := Json.arr (is.map fun i => Json.mkObj [("c", i.clause), ("d", i.detail)]).toArray

def renderCase (j : Json) : Except String Json := do
  let s ← Flat.dScenario (← j.getObjVal? "flat")
  let http ← match parse (getStr j "http").toList with
    | .ok d => pure d
    | .error e => throw s!"http.conf does not parse: {reprStr e}"
  let ms ← Flat.dMatches (getStr j "matches")
  let t := NGF.RenderTie.tie http ms s
  pure (Json.mkObj [("inFragment", t.inFragment), ("why", t.why), ("namesSafe", t.namesSafe), ("portsOK", t.portsOK), ("equal", t.equal), ("diff", t.diff),
    ("matchesEqual", t.matchesEqual), ("matchesDiff", t.matchesDiff), ("dirs", t.dirs), ("servers", t.servers),
    ("locations", t.locations), ("splits", t.splits), ("keys", t.keys), ("ports", t.ports),
    ("dropped", Json.arr (t.dropped.map Json.str).toArray), ("wfModel", issuesJ t.wfModel), ("wfReal", issuesJ t.wfReal)])

def parseSecretJ (j : Json) : NGF.Tls.SecretObj :=
  { ns := (getStr j "ns").toList, name := (getStr j "name").toList, isTLS := getStr j "type" == "kubernetes.io/tls",
    pairOK := getBool j "pairOK", cert := (getStr j "cert").toList, key := (getStr j "key").toList }

/-- `rendertls` mode: lines of `harness/cmd/c03 -fragment-tls` -/
def renderTlsCase (j : Json) : Except String Json := do
  let s ← Flat.dScenario (← j.getObjVal? "flat")
  let http ← match parse (getStr j "http").toList with
    | .ok d => pure d
    | .error e => throw s!"http.conf does not parse: {reprStr e}"
  let ms ← Flat.dMatches (getStr j "matches")
  let secrets := (getArr j "secrets").toList.map parseSecretJ
  let sfiles := (getArr j "sfiles").toList.map fun x => x.getStr?.toOption.getD ""
  let t := NGF.RenderTlsTie.tie http ms s secrets sfiles
  pure (Json.mkObj [("inFragment", t.inFragment), ("why", t.why), ("namesSafe", t.namesSafe), ("portsOK", t.portsOK),
    ("noDupSsl", t.noDupSsl), ("httpsFrag", t.httpsFrag), ("equal", t.equal), ("diff", t.diff), ("matchesEqual", t.matchesEqual), ("matchesDiff", t.matchesDiff),
    ("dirs", t.dirs), ("sslServers", t.sslServers), ("sslDefaults", t.sslDefaults), ("certRefs", t.certRefs),
    ("certMissing", Json.arr (t.certMissing.map Json.str).toArray), ("certModelOK", t.certModelOK), ("forgetOK", t.forgetOK),
    ("wfModel", issuesJ t.wfModel), ("wfReal", issuesJ t.wfReal)])

def driver (args : List String) : IO UInt32 := do
  let stdin ← IO.getStdin
  let stdout ← IO.getStdout
  let stat ← IO.mkRef ([] : List (Bool × List (String × String)))
  match args with
  | [mode] =>
    if mode != "judge" && mode != "model" && mode != "render" && mode != "rendertls" then
      IO.eprintln "usage: C03 judge|model|render"; return 2
    NGF.Proto.forEachLine stdin fun l => do
      match Json.parse l with
      | .error _ => stdout.putStrLn "bad-op"
      | .ok j =>
        if mode == "rendertls" then
          match renderTlsCase j with
          | .ok v => stdout.putStrLn v.compress
          | .error e => stdout.putStrLn (Json.mkObj [("error", "bad-op"), ("why", e)]).compress
        else if mode == "render" then
          match renderCase j with
          | .ok v => stdout.putStrLn v.compress
          | .error e => stdout.putStrLn (Json.mkObj [("error", "bad-op"), ("why", e)]).compress
        else if getBool j "static" then
          stat.modify fun s => (getBool j "plus", filesOf j) :: s
          stdout.putStrLn "{\"static\":true}"
        else if mode == "judge" then
          let s ← stat.get
          let st := ((s.find? fun x => x.1 == getBool j "plus").map (·.2)).getD []
          stdout.putStrLn (judgeCase st j).compress
        else
          stdout.putStrLn (modelCase j).compress
    return 0
  | _ => IO.eprintln "usage: C03 judge|model|render"; return 2

end NGF.C03Driver

/-- executable entry point: `ngfdriver_C03 judge|model|render` -/
def main (args : List String) : IO UInt32 := NGF.C03Driver.driver args
