import Lean.Data.Json
import NGF.Spec.WellFormedConf
import NGF.Model.Mangle
import NGF.Model.Proto
/-
Driver entry for C03.   ngfdriver_C03 judge | model
Input: the JSON lines of harness/cmd/c03 (see harness/c03/run.go `LineJ`).
  judge : static lines are remembered (per plus flag) -> `{"static":true}`;
          case lines -> {"issues":[{"c":clause,"d":detail}…],"lexdiff":[…],"tokens":n,"dirs":n}
          (the WellFormedConf judge on static ∪ generated files; the Lean lexer against crossplane's tokens)
  model : case lines -> {"diffs":[…],"n":k}  the Mangle model against the real names observed
-/
namespace NGF.C03Driver
open Lean NGF.WF NGF.Nginx

def getStr (j : Json) (k : String) : String := (j.getObjValAs? String k).toOption.getD ""
def getBool (j : Json) (k : String) : Bool := (j.getObjValAs? Bool k).toOption.getD false
def getArr (j : Json) (k : String) : Array Json := ((j.getObjVal? k).toOption.bind fun v => v.getArr?.toOption).getD #[]

def filesOf (j : Json) : List (String × String) :=
  (getArr j "files").toList.map fun f => (getStr f "p", getStr f "t")

/-- paths that exist in the container image but are neither generated nor in the repository -/
def imagePaths : List String := [
  "/usr/lib/nginx/modules/njs/httpmatches.js", "/etc/ssl/cert.pem", "/usr/lib/nginx/modules/ngx_http_js_module.so",
  "modules/ngx_otel_module.so"]

def matchKeysOf (files : List (String × String)) : Except String (List (String × List String)) :=
  match files.find? (·.1 == "/etc/nginx/conf.d/matches.json") with
  | none => .ok []
  | some (_, t) =>
    match Json.parse t with
    | .error e => .error e
    | .ok j =>
      match j.getObj? with
      | .error e => .error e
      | .ok o => .ok (o.toList.map fun (k, v) =>
          (k, (v.getArr?.toOption.getD #[]).toList.map fun m => getStr m "redirectPath"))

def tokStr : Tok → String
  | .word s q => (if q then "q:" else "b:") ++ String.ofList s
  | .semi => "b:;"
  | .open => "b:{"
  | .close => "b:}"

/-- crossplane does not resolve escapes inside tokens; compare modulo the copy loop of ngx_conf_read_token -/
def normXP (s : String) : String :=
  if s.startsWith "q:" || s.startsWith "b:" then
    (s.take 2).toString ++ String.ofList (unescape (s.drop 2).toString.toList)
  else s

def lexCompare (path text : String) (xp : List String) : Option String × Nat :=
  match lex text.toList with
  | .error e => (if xp.any (·.startsWith "ERR:") then none else some (path ++ ": lean lex error " ++ reprStr e ++ ", crossplane none"), 0)
  | .ok ts =>
    let mine := ts.map tokStr
    let theirs := xp.map normXP
    if mine == theirs then (none, mine.length)
    else
      let idx := ((mine.zip theirs).takeWhile fun (a, b) => a == b).length
      (some s!"{path}: token {idx}: lean {mine.getD idx "<end>"} / crossplane {theirs.getD idx "<end>"}", mine.length)

partial def countDirs : List Dir → Nat
  | [] => 0
  | d :: ds => 1 + (match d.block with | some ch => countDirs ch | none => 0) + countDirs ds

def judgeCase (static : List (String × String)) (j : Json) : Json :=
  let files := filesOf j
  match matchKeysOf files with
  | .error e => Json.mkObj [("issues", Json.arr #[Json.mkObj [("c", "matches-json-invalid"), ("d", e)]])]
  | .ok mk =>
    let fs : FileSet := { files := static ++ files, imagePaths := imagePaths, matchKeys := mk }
    let issues := judge fs
    let xp := (j.getObjVal? "xp").toOption.getD (Json.mkObj [])
    -- the harness sends crossplane's tokens once per distinct file content
    let cmp := (files.filter fun f => f.1.endsWith ".conf" && (xp.getObjVal? f.1).toOption.isSome).map fun f =>
      lexCompare f.1 f.2 ((getArr xp f.1).toList.map fun t => t.getStr?.toOption.getD "")
    let ndirs : Nat := (files.filter fun f => f.1.endsWith ".conf").foldl (init := 0) fun n f =>
      match parse f.2.toList with | .ok ds => n + countDirs ds | .error _ => n
    let ntoks : Nat := (cmp.map (·.2)).foldl (init := 0) (· + ·)
    Json.mkObj [
      ("issues", Json.arr (issues.map fun i => Json.mkObj [("c", i.clause), ("d", i.detail)]).toArray),
      ("lexdiff", Json.arr ((cmp.filterMap (·.1)).map Json.str).toArray),
      ("tokens", toJson ntoks),
      ("dirs", toJson ndirs)]

open NGF.Mangle in
def modelName (k : String) (a : List String) : Option String :=
  let c (s : String) := s.toList
  let o (l : List Char) := some (String.ofList l)
  match k, a with
  | "group", [ns, n, i] => i.toNat?.bind fun i => o (groupName (c ns) (c n) i)
  | "safevar", [s] => o (safeVar (c s))
  | "upstream", [ns, n, p] => p.toNat?.bind fun p => o (upstreamName (c ns) (c n) p)
  | "keypairfile", [ns, n] => o (pemFile (c ns) (c n))
  | "bundlefile", [ns, n] => o (bundleFile (c ns) (c n))
  | "cspfile", [ns, n] => o (cspFile (c ns) (c n))
  | "socktls", [p, h] => p.toNat?.bind fun p => o (sockTLS p (c h))
  | "sockhttps", [p] => p.toNat?.bind fun p => o (sockHTTPS p)
  | "passvar", [p] => p.toNat?.bind fun p => o (passVar p)
  | "addhdrvar", [n] => o (addHdrVar (c n))
  | "internalloc", [i, j] => i.toNat?.bind fun i => j.toNat?.bind fun j => o (internalLocPath i j)
  | "rewriteprefix", [r, p] => o (mainRewritePrefix (c r) (c p))
  | _, _ => none

def modelCase (j : Json) : Json :=
  let names := (getArr j "names").toList
  let diffs := names.filterMap fun n =>
    let k := getStr n "k"
    let a := (getArr n "a").toList.map fun x => x.getStr?.toOption.getD ""
    let real := getStr n "real"
    match modelName k a with
    | none => some s!"{k} {a}: model has no such mangling"
    | some m => if m == real then none else some s!"{k} {a}: real {real} / model {m}"
  Json.mkObj [("diffs", Json.arr (diffs.map Json.str).toArray), ("n", toJson names.length)]

def driver (args : List String) : IO UInt32 := do
  let stdin ← IO.getStdin
  let stdout ← IO.getStdout
  let stat ← IO.mkRef ([] : List (Bool × List (String × String)))
  match args with
  | [mode] =>
    if mode != "judge" && mode != "model" then
      IO.eprintln "usage: C03 judge|model"; return 2
    NGF.Proto.forEachLine stdin fun l => do
      match Json.parse l with
      | .error _ => stdout.putStrLn "bad-op"
      | .ok j =>
        if getBool j "static" then
          stat.modify fun s => (getBool j "plus", filesOf j) :: s
          stdout.putStrLn "{\"static\":true}"
        else if mode == "judge" then
          let s ← stat.get
          let st := ((s.find? fun x => x.1 == getBool j "plus").map (·.2)).getD []
          stdout.putStrLn (judgeCase st j).compress
        else
          stdout.putStrLn (modelCase j).compress
    return 0
  | _ => IO.eprintln "usage: C03 judge|model"; return 2

end NGF.C03Driver

/-- executable entry point: `ngfdriver_C03 judge|model` -/
def main (args : List String) : IO UInt32 := NGF.C03Driver.driver args
