import Lean.Data.Json
import NGF.Model.Resolver
import NGF.Model.ResolverSpec
import NGF.Model.ResolverFaults
import NGF.Model.ResolverHistory
import NGF.Model.PipelineEndpoints
import NGF.Model.PipelineRefsTie
import NGF.Model.Proto
/-
Driver entry for C13.  Every input line is one JSON object `{"k":mode,"id":n,"in":{…},"out":{…}}` as
written by harness/c13 ("out" = what the REAL code produced).
  `model` : recompute "out" from "in" with the Lean model, print it as JSON (lists unordered)
  `judge` : evaluate the property on "in" and the real "out": `ok` | `skip <why>` | `fail <clause>,<clause>…`
Kinds: `resolve`, `pipe`, `plus`, `e2e`, `seq`, and `faults` (EndpointSlice histories × fault scripts through the real
`HandleEventBatch`, OSS and Plus: model = `traceH` of `Model/ResolverFaults.lean`).
Undecodable input answers `bad-op`.
-/
namespace NGF.Resolver
open Lean (Json)

/-! ### decoding -/

def optField (j : Json) (k : String) : Option Json :=
  match j.getObjVal? k with
  | .ok v => if v.isNull then none else some v
  | .error _ => none

def reqStr (j : Json) (k : String) : Except String String := do (← j.getObjVal? k).getStr?
def reqNat (j : Json) (k : String) : Except String Nat := do (← j.getObjVal? k).getNat?
def reqBool (j : Json) (k : String) : Except String Bool := do (← j.getObjVal? k).getBool?
def reqArr (j : Json) (k : String) : Except String (List Json) := do
  match j.getObjVal? k with
  | .ok v => if v.isNull then pure [] else return (← v.getArr?).toList
  | .error _ => pure []

def parseAddrType (s : String) : AddrType :=
  if s = "IPv4" then .ipv4 else if s = "IPv6" then .ipv6 else if s = "FQDN" then .fqdn else .other

def parsePort (j : Json) : Except String EndpointPort := do
  let name ← match optField j "name" with
    | none => pure none
    | some v => do pure (some (← v.getStr?))
  let port ← match optField j "port" with
    | none => pure none
    | some v => do pure (some (← v.getNat?))
  return ⟨name, port⟩

def parseEndpoint (j : Json) : Except String Endpoint := do
  let addrs ← (← reqArr j "addrs").mapM (·.getStr?)
  let ready ← match optField j "ready" with
    | none => pure none
    | some v => do pure (some (← v.getBool?))
  return ⟨addrs, ready⟩

def parseSlice (j : Json) : Except String Slice := do
  let label ← match optField j "label" with
    | none => pure none
    | some v => do pure (some (← v.getStr?))
  return { ns := ← reqStr j "ns", svcLabel := label, addrType := parseAddrType (← reqStr j "type"),
           ports := ← (← reqArr j "ports").mapM parsePort,
           endpoints := ← (← reqArr j "eps").mapM parseEndpoint }

def parseSvcPort (j : Json) : Except String SvcPort := do
  let tp ← match optField j "tps", optField j "tpi" with
    | some v, _ => do pure (TargetPort.str (← v.getStr?))
    | none, some v => do pure (TargetPort.int (← v.getNat?))
    | none, none => pure (TargetPort.int 0)
  return ⟨← reqStr j "name", ← reqNat j "port", tp⟩

def parseFam (s : String) : IPFamily :=
  if s = "ipv4" then .ipv4 else if s = "ipv6" then .ipv6 else if s = "dual" then .dual else .other

def parseEp (j : Json) : Except String Ep := do
  return ⟨← reqStr j "a", ← reqNat j "p", ← reqBool j "v6"⟩

def parseUp (j : Json) : Except String Up := do
  return ⟨← reqStr j "name", ← (← reqArr j "eps").mapM parseEp⟩

def parseStrs (j : Json) (k : String) : Except String (List String) := do
  (← reqArr j k).mapM (·.getStr?)

/-- `{"name":[servers]}` object → table -/
def parseTable (j : Json) (k : String) : Except String Table := do
  match optField j k with
  | none => pure []
  | some v =>
    let o ← v.getObj?
    o.toList.mapM fun (n, l) => do return (n, ← (← l.getArr?).toList.mapM (·.getStr?))

/-! ### encoding -/

def epJson (e : Ep) : Json :=
  Json.mkObj [("a", e.address), ("p", e.port), ("v6", e.ipv6)]

def strsJson (l : List String) : Json := Json.arr (l.map Json.str).toArray

def tableJson (t : Table) : Json := Json.mkObj (t.map fun (n, l) => (n, strsJson l))

def ngxJson (u : NgxUpstream) : Json :=
  Json.mkObj [("name", u.name), ("zone", u.zoneSize), ("state", u.stateFile),
              ("servers", strsJson (configServers u))]

def resName : Res → String
  | .panic => "panic" | .errNoEndpoints => "errNoEndpoints" | .errNoValid => "errNoValid" | .ok _ => "ok"

/-! ### resolve -/

structure ResolveIn where
  slices : List Slice
  ns : String
  name : String
  sp : SvcPort
  allowed : List AddrType

def parseResolveIn (j : Json) : Except String ResolveIn := do
  return { slices := ← (← reqArr j "slices").mapM parseSlice, ns := ← reqStr j "ns", name := ← reqStr j "name",
           sp := ← parseSvcPort (← j.getObjVal? "sp"), allowed := (← parseStrs j "allowed").map parseAddrType }

def modelResolve (i : ResolveIn) : Json :=
  let r := resolve i.slices i.ns i.name i.sp i.allowed
  Json.mkObj [("res", resName r), ("eps", Json.arr (r.eps.map epJson).toArray)]

def verdict (fails : List String) : String :=
  if fails.isEmpty then "ok" else "fail " ++ ",".intercalate fails.eraseDups

def judgeResolveLine (i : ResolveIn) (out : Json) : Except String String := do
  let eps ← (← reqArr out "eps").mapM parseEp
  let res ← reqStr out "res"
  if !admissible i.slices i.ns i.name i.sp i.allowed then return "skip inadmissible"
  if res = "panic" then return "fail resolve_panic"
  return verdict (judgeResolve i.slices i.ns i.name i.sp i.allowed eps)

/-! ### pipe -/

structure Ref where
  ns : String
  name : String
  sp : SvcPort
  stream : Bool

def parseRef (j : Json) : Except String Ref := do
  return ⟨← reqStr j "ns", ← reqStr j "name", ← parseSvcPort (← j.getObjVal? "sp"), ← reqBool j "stream"⟩

/-- `BackendRef.ServicePortReference` -/
def upstreamName (r : Ref) : String := r.ns ++ "_" ++ r.name ++ "_" ++ toString r.sp.port

/-- `buildUpstreams` / `buildStreamUpstreams`: one upstream per distinct name, first reference wins -/
def buildUps (slices : List Slice) (fam : IPFamily) : List Ref → List String → List Up
  | [], _ => []
  | r :: rs, seen =>
    let n := upstreamName r
    if n ∈ seen then buildUps slices fam rs seen
    else ⟨n, upstreamEndpoints slices r.ns r.name r.sp fam⟩ :: buildUps slices fam rs (n :: seen)

def invalidBackendRef : NgxUpstream :=
  { name := "invalid-backend-ref", zoneSize := "", stateFile := "",
    servers := ["unix:/var/run/nginx/nginx-500-server.sock"] }

structure PipeIn where
  slices : List Slice
  fam : IPFamily
  plus : Bool
  refs : List Ref

def parsePipeIn (j : Json) : Except String PipeIn := do
  return { slices := ← (← reqArr j "slices").mapM parseSlice, fam := parseFam (← reqStr j "fam"),
           plus := ← reqBool j "plus", refs := ← (← reqArr j "refs").mapM parseRef }

def upJson (u : Up) : Json := Json.mkObj [("name", u.name), ("eps", Json.arr (u.eps.map epJson).toArray)]

def modelPipe (i : PipeIn) : Json :=
  let http := buildUps i.slices i.fam (i.refs.filter (!·.stream)) []
  let stream := buildUps i.slices i.fam (i.refs.filter (·.stream)) []
  let c : Conf := ⟨http, stream⟩
  let httpConf := http.map (createUpstream i.plus) ++ [invalidBackendRef]
  let streamConf := createStreamUpstreams i.plus stream
  -- the reload path: load the files, then (Plus) push the endpoints through the API
  let a := if i.plus then step ⟨[], []⟩ (.reload c) else ⟨[], []⟩
  let af := if i.plus then stepFixed ⟨[], []⟩ (.reload c) else ⟨[], []⟩
  let view (conf : List NgxUpstream) (t : Table) : Table :=
    conf.map fun u => (u.name, if u.stateFile ≠ "" then t.servers u.name else u.servers)
  Json.mkObj [("http", Json.arr (http.map upJson).toArray), ("stream", Json.arr (stream.map upJson).toArray),
    ("httpConf", Json.arr (httpConf.map ngxJson).toArray),
    ("streamConf", Json.arr (streamConf.map ngxJson).toArray),
    ("view", Json.mkObj [("http", tableJson (view httpConf a.http)), ("stream", tableJson (view streamConf a.stream))]),
    ("viewFixedA", Json.mkObj [("http", tableJson (view httpConf af.http)), ("stream", tableJson (view streamConf af.stream))])]

def findUp (ups : List Up) (n : String) : Option Up := ups.find? (·.name = n)

/-- the property on the real pipeline output: for every reference, the endpoints the real code resolved
satisfy the resolution clauses, and the servers NGINX ends up with are those endpoints / the placeholder -/
def judgePipeLine (i : PipeIn) (out : Json) : Except String String := do
  let http ← (← reqArr out "http").mapM parseUp
  let stream ← (← reqArr out "stream").mapM parseUp
  let view ← out.getObjVal? "view"
  let vh ← parseTable view "http"
  let vs ← parseTable view "stream"
  if (optField out "err").isSome then return "fail pipe_error"
  let allowed := getAllowedAddressType i.fam
  let mut fails : List String := []
  let mut skipped := 0
  for r in i.refs do
    if !admissible i.slices r.ns r.name r.sp allowed then
      skipped := skipped + 1
      continue
    let n := upstreamName r
    match findUp (if r.stream then stream else http) n with
    | none => fails := fails ++ ["upstream_missing"]
    | some u =>
      fails := fails ++ judgeResolve i.slices r.ns r.name r.sp allowed u.eps
      if r.stream then
        fails := fails ++ judgeStreamServers u.eps (Table.servers vs n)
      else
        fails := fails ++ (judgeServers u.eps (Table.servers vh n)).map
          fun c => if i.plus && c = "empty_no_503" then "plus_empty_no_503" else c
  if skipped = i.refs.length then return "skip inadmissible"
  return verdict fails

/-! ### plus -/

def parseOp (j : Json) : Except String Op := do
  let c : Conf := ⟨← (← reqArr j "http").mapM parseUp, ← (← reqArr j "stream").mapM parseUp⟩
  let op ← reqStr j "op"
  if op = "reload" then return .reload c
  else if op = "endpoints" then return .endpoints c
  else throw "bad op"

/-- the view the harness reports: every upstream of the loaded configuration with its servers -/
def apiJson (a : Api) : Json := Json.mkObj [("http", tableJson a.http), ("stream", tableJson a.stream)]

def runViews (a : Api) : List Op → List Api
  | [] => []
  | o :: os => step a o :: runViews (step a o) os

/-- the same history under the repaired variants (see `stepV`) -/
def runViewsV (fixA fixB : Bool) (a : Api) : List Op → List Api
  | [] => []
  | o :: os => stepV fixA fixB a o :: runViewsV fixA fixB (stepV fixA fixB a o) os

def variantViews (ops : List Op) : List (String × Json) :=
  [("viewsFixedA", Json.arr ((runViewsV true false ⟨[], []⟩ ops).map apiJson).toArray),
   ("viewsFixedB", Json.arr ((runViewsV false true ⟨[], []⟩ ops).map apiJson).toArray),
   ("viewsFixedAB", Json.arr ((runViewsV true true ⟨[], []⟩ ops).map apiJson).toArray)]

def modelPlus (ops : List Op) : Json :=
  Json.mkObj ([("views", Json.arr ((runViews ⟨[], []⟩ ops).map apiJson).toArray)] ++ variantViews ops)

/-- convertEndpoints agrees with serverAddress when no port is 0 (the resolver never returns port 0) -/
def judgePlusOp (c : Conf) (isReload : Bool) (vh vs : Table) (alt : Option (Table × Table)) : List String :=
  let h := c.http.flatMap fun u =>
    (judgeServers u.eps (vh.servers u.name)).map fun f =>
      if f = "empty_no_503" then "plus_empty_no_503" else "plus_http_" ++ f
  let s := c.stream.flatMap fun u =>
    (judgeStreamServers u.eps (vs.servers u.name)).map fun f =>
      if f = "stream_servers_differ" && !isReload && (vs.get u.name).isNone then "plus_stream_upstream_absent"
      else "plus_" ++ f
  let d := match alt with
    | none => []
    | some (ah, as) =>
      (c.http.flatMap fun u => if sameSet (vh.servers u.name) (ah.servers u.name) then [] else ["plus_http_differs_from_reload"]) ++
      (c.stream.flatMap fun u => if sameSet (vs.servers u.name) (as.servers u.name) then []
        else if (vs.get u.name).isNone then ["plus_stream_upstream_absent"] else ["plus_stream_differs_from_reload"])
  h ++ s ++ d

def judgePlusLine (ops : List Op) (out : Json) : Except String String := do
  let views ← reqArr out "views"
  let alts ← reqArr out "alts"
  let errs ← reqArr out "errs"
  if views.length ≠ ops.length then return "fail plus_missing_views"
  let mut fails : List String := if errs.isEmpty then [] else ["plus_update_error"]
  for (o, (v, alt)) in ops.zip (views.zip alts) do
    let vh ← parseTable v "http"
    let vs ← parseTable v "stream"
    let a ← if alt.isNull then pure none else do pure (some (← parseTable alt "http", ← parseTable alt "stream"))
    let isReload := match o with | .reload _ => true | _ => false
    fails := fails ++ judgePlusOp o.conf isReload vh vs a
  return verdict fails

/-! ### e2e: sequences of EndpointSlice changes through the real HandleEventBatch -/

structure E2EOp where
  reload : Bool
  slices : List Slice
  refs : List Ref

def parseE2EOp (j : Json) : Except String E2EOp := do
  let op ← reqStr j "op"
  if op ≠ "reload" && op ≠ "endpoints" then throw "bad op"
  return ⟨op = "reload", ← (← reqArr j "slices").mapM parseSlice, ← (← reqArr j "refs").mapM parseRef⟩

def E2EOp.conf (fam : IPFamily) (o : E2EOp) : Conf :=
  ⟨buildUps o.slices fam (o.refs.filter (!·.stream)) [], buildUps o.slices fam (o.refs.filter (·.stream)) []⟩

def E2EOp.op (fam : IPFamily) (o : E2EOp) : Op :=
  if o.reload then .reload (o.conf fam) else .endpoints (o.conf fam)

def confJson (c : Conf) : Json :=
  Json.mkObj [("http", Json.arr (c.http.map upJson).toArray), ("stream", Json.arr (c.stream.map upJson).toArray)]

def modelE2E (fam : IPFamily) (ops : List E2EOp) : Json :=
  Json.mkObj ([("confs", Json.arr (ops.map fun o => confJson (o.conf fam)).toArray),
              ("views", Json.arr ((runViews ⟨[], []⟩ (ops.map (·.op fam))).map apiJson).toArray)] ++
              variantViews (ops.map (·.op fam)))

def judgeE2ELine (fam : IPFamily) (ops : List E2EOp) (out : Json) : Except String String := do
  let confs ← reqArr out "confs"
  let views ← reqArr out "views"
  let alts ← reqArr out "alts"
  let errs ← reqArr out "errs"
  if views.length ≠ ops.length || confs.length ≠ ops.length then return "fail e2e_missing_views"
  let allowed := getAllowedAddressType fam
  let mut fails : List String := if errs.isEmpty then [] else ["e2e_error"]
  for (o, (cj, (v, alt))) in ops.zip (confs.zip (views.zip alts)) do
    let http ← (← reqArr cj "http").mapM parseUp
    let stream ← (← reqArr cj "stream").mapM parseUp
    for r in o.refs do
      if admissible o.slices r.ns r.name r.sp allowed then
        match findUp (if r.stream then stream else http) (upstreamName r) with
        | none => fails := fails ++ ["upstream_missing"]
        | some u => fails := fails ++ judgeResolve o.slices r.ns r.name r.sp allowed u.eps
    let vh ← parseTable v "http"
    let vs ← parseTable v "stream"
    let a ← if alt.isNull then pure none else do pure (some (← parseTable alt "http", ← parseTable alt "stream"))
    fails := fails ++ judgePlusOp ⟨http, stream⟩ o.reload vh vs a
  return verdict fails

/-! ### faults: EndpointSlice histories × fault scripts through the real HandleEventBatch (OSS and Plus) -/

def parseFaults (j : Json) : Except String Faults := do
  match optField j "faults" with
  | none => return Faults.none
  | some f =>
    let b (k : String) : Bool := match optField f k with
      | some v => v.getBool?.toOption.getD false
      | none => false
    return ⟨b "replace", b "reload", b "get", ← parseStrs f "http", ← parseStrs f "stream"⟩

structure FaultOp where
  e : E2EOp
  faults : Faults

def parseFaultOp (j : Json) : Except String FaultOp := do
  return ⟨← parseE2EOp j, ← parseFaults j⟩

def FaultOp.hop (fam : IPFamily) (o : FaultOp) : HOp :=
  ⟨if o.e.reload then .cluster else .endpoints, o.e.conf fam, o.faults⟩

def modelFaults (fam : IPFamily) (plus : Bool) (ops : List FaultOp) : Json :=
  let tr := traceH plus HState.init (ops.map (·.hop fam))
  Json.mkObj [("confs", Json.arr (ops.map fun o => confJson (o.e.conf fam)).toArray),
              ("views", Json.arr (tr.map fun r => apiJson r.1.ngx.api).toArray),
              ("errs", Json.arr (tr.map fun r => Json.bool r.2).toArray),
              ("lastErrs", Json.arr (tr.map fun r => Json.bool r.1.lastErr).toArray)]

/-- The property on what NGINX holds after a batch the handler reported as successful (or that no fault hit):
the servers of every upstream are the endpoints the REAL configuration of that batch resolved (the 503 placeholder
when none). `staleLoad`: the most recent ClusterStateChange batch did not get its reload through. -/
def judgeHeld (plus isReload staleLoad : Bool) (c : Conf) (vh vs : Table) : List String :=
  let tag := if plus then "plus" else "oss"
  let h := c.http.flatMap fun u =>
    (judgeServers u.eps (vh.servers u.name)).map fun f =>
      if plus && f = "empty_no_503" then "plus_empty_no_503"
      else if plus && !isReload && staleLoad && (vh.get u.name).isNone then "plus_quiet_after_failed_reload"
      else "faults_" ++ tag ++ "_http_" ++ f
  let s := c.stream.flatMap fun u =>
    (judgeStreamServers u.eps (vs.servers u.name)).map fun f =>
      if plus && !isReload && (vs.get u.name).isNone && f = "stream_servers_differ" then
        (if staleLoad then "plus_quiet_after_failed_reload" else "plus_stream_upstream_absent")
      else "faults_" ++ tag ++ "_" ++ f
  h ++ s

def judgeFaultsLine (fam : IPFamily) (plus : Bool) (ops : List FaultOp) (out : Json) : Except String String := do
  let confs ← reqArr out "confs"
  let views ← reqArr out "views"
  let errs ← (← reqArr out "errs").mapM (·.getBool?)
  let fired ← (← reqArr out "fired").mapM (·.getBool?)
  let panics ← reqArr out "panics"
  let reloads ← (← reqArr out "reloads").mapM (·.getNat?)
  let n := ops.length
  if views.length ≠ n || confs.length ≠ n || errs.length ≠ n || fired.length ≠ n || reloads.length ≠ n then
    return "fail faults_missing_views"
  let allowed := getAllowedAddressType fam
  let mut fails : List String := if panics.isEmpty then [] else ["faults_panic"]
  let mut staleLoad := true
  for (o, (cj, (v, (e, (f, nReloads))))) in ops.zip (confs.zip (views.zip (errs.zip (fired.zip reloads)))) do
    let http ← (← reqArr cj "http").mapM parseUp
    let stream ← (← reqArr cj "stream").mapM parseUp
    -- NGINX runs a stale configuration from a ClusterStateChange that could not reload until a reload really happens
    let reloaded := nReloads > 0
    if reloaded then staleLoad := false
    else if o.e.reload then staleLoad := true
    for r in o.e.refs do
      if admissible o.e.slices r.ns r.name r.sp allowed then
        match findUp (if r.stream then stream else http) (upstreamName r) with
        | none => fails := fails ++ ["upstream_missing"]
        | some u => fails := fails ++ judgeResolve o.e.slices r.ns r.name r.sp allowed u.eps
    if e && !f then fails := fails ++ ["faults_spurious_error"]
    if !e || !f then
      let vh ← parseTable v "http"
      let vs ← parseTable v "stream"
      fails := fails ++ judgeHeld plus reloaded staleLoad ⟨http, stream⟩ vh vs
    else if plus && !o.faults.replace && !o.faults.reload && !o.faults.get then
      -- only per-upstream API errors: every OTHER upstream NGINX knows must hold this batch's endpoints
      -- (theorem `api_failure_is_local`)
      let vh ← parseTable v "http"
      let vs ← parseTable v "stream"
      fails := fails ++ (http.filter fun u => !o.faults.http.contains u.name && (vh.get u.name).isSome).flatMap fun u =>
        (judgeServers u.eps (vh.servers u.name)).map fun c =>
          if c = "empty_no_503" then "plus_empty_no_503" else "faults_plus_unaffected_http_" ++ c
      fails := fails ++ (stream.filter fun u => !o.faults.stream.contains u.name && (vs.get u.name).isSome).flatMap fun u =>
        (judgeStreamServers u.eps (vs.servers u.name)).map ("faults_plus_unaffected_" ++ ·)
  return verdict fails


/-! ### hist: histories of watch events through the REAL ChangeProcessor + handler (OSS and Plus) -/

def parseHSvc (j : Json) : Except String HSvc := do
  return ⟨← reqStr j "ns", ← reqStr j "name", ← (← reqArr j "ports").mapM parseSvcPort⟩

def parseHRoute (j : Json) : Except String HRoute := do
  let refs ← (← reqArr j "refs").mapM fun r => do return (⟨← reqStr r "name", ← reqNat r "port"⟩ : HRef)
  return ⟨← reqStr j "ns", ← reqStr j "name", refs⟩

def parseEv (j : Json) : Except String Ev := do
  let op ← reqStr j "op"
  let kind ← reqStr j "kind"
  if op = "upsert" && kind = "slice" then
    let sj ← j.getObjVal? "slice"
    return .upsertSlice (← reqStr sj "obj") (← parseSlice sj)
  else if op = "delete" && kind = "slice" then return .deleteSlice (← reqStr j "ns") (← reqStr j "name")
  else if op = "upsert" && kind = "svc" then return .upsertSvc (← parseHSvc (← j.getObjVal? "svc"))
  else if op = "delete" && kind = "svc" then return .deleteSvc (← reqStr j "ns") (← reqStr j "name")
  else if op = "upsert" && kind = "route" then return .upsertRoute (← parseHRoute (← j.getObjVal? "route"))
  else if op = "delete" && kind = "route" then return .deleteRoute (← reqStr j "ns") (← reqStr j "name")
  else throw "bad event"

def parseBatches (inp : Json) : Except String (List (List Ev)) := do
  (← reqArr inp "batches").mapM fun b => do (← b.getArr?).toList.mapM parseEv

def changeName : Change → String
  | .none => "none" | .endpoints => "endpoints" | .cluster => "cluster"

def modelHist (plus : Bool) (bs : List (List Ev)) : Json :=
  let tr := runHistory plus true (PState.init plus) bs
  Json.mkObj [("changes", Json.arr (tr.map fun r => Json.str (changeName r.2)).toArray),
              ("views", Json.arr (tr.map fun r => apiJson r.1.h.ngx.api).toArray),
              ("confs", Json.arr (tr.map fun r => confJson ((r.1.h.latest).getD ⟨[], []⟩)).toArray)]

/-- the clusters after each batch (bookkeeping of the input only) -/
def clustersAfter : Cluster → List (List Ev) → List Cluster
  | _, [] => []
  | c, b :: bs => let c' := b.foldl Cluster.apply c; c' :: clustersAfter c' bs

/-- The property after every drained batch: for every backendRef of a route whose Service and port exist, the servers NGINX
holds for its upstream are the ready endpoints of that Service port in the CURRENT cluster — computed by `resolve`, which is
the declarative set of the statement by `resolve_eq_spec` — or the 503 placeholder when there is none. -/
def judgeHistLine (plus : Bool) (bs : List (List Ev)) (out : Json) : Except String String := do
  let views ← reqArr out "views"
  let panics ← reqArr out "panics"
  if !panics.isEmpty then return "fail hist_panic"
  if views.length ≠ bs.length then return "fail hist_missing_views"
  let allowed := getAllowedAddressType .dual
  let tag := if plus then "plus" else "oss"
  let mut fails : List String := []
  let mut judged := 0
  for (c, v) in (clustersAfter ⟨[], [], []⟩ bs).zip views do
    let vh ← parseTable v "http"
    let slices := c.slices.map (·.2)
    for r in c.routes do
      for ref in r.refs do
        match findSvcPort c.svcs r.ns ref.name ref.port with
        | none => pure ()
        | some sp =>
          if admissible slices r.ns ref.name sp allowed then
            judged := judged + 1
            let eps := (resolve slices r.ns ref.name sp allowed).eps
            let n := r.ns ++ "_" ++ ref.name ++ "_" ++ toString ref.port
            fails := fails ++ (judgeServers eps (vh.servers n)).map fun f =>
              if plus && f = "empty_no_503" then "plus_empty_no_503" else "hist_" ++ tag ++ "_http_" ++ f
  if judged = 0 then return "skip no resolvable backendRef"
  return verdict fails

/-! ### pipeE: EndpointSlices inside the pipeline model — `PipelineEndpoints.httpUpstreams` against the REAL http.conf -/

end NGF.Resolver

namespace NGF.C13Flat
open Lean (Json)
open NGF.Resolver (reqStr reqNat reqBool reqArr)

def reqInt (j : Json) (k : String) : Except String Int := do (← j.getObjVal? k).getInt?
open NGF.Spec.GatewayAPI

def strMap (j : Json) (k : String) : Except String (List (String × String)) := do
  match j.getObjVal? k with
  | .ok (.obj m) => m.toList.mapM fun (a, b) => do pure (a, ← b.getStr?)
  | _ => pure []

def strs (j : Json) (k : String) : Except String (List String) := do (← reqArr j k).mapM (·.getStr?)

def dKV (j : Json) : Except String KV := do pure ⟨← reqStr j "type", ← reqStr j "name", ← reqStr j "value"⟩
def dHeader (j : Json) : Except String Header := do pure ⟨← reqStr j "name", ← reqStr j "value"⟩

def dMatch (j : Json) : Except String Match := do
  pure { ptype := ← reqStr j "ptype", pvalue := ← reqStr j "pvalue", method := ← reqStr j "method",
         headers := ← (← reqArr j "headers").mapM dKV, query := ← (← reqArr j "query").mapM dKV,
         hasGm := ← reqBool j "hasGm", gmType := ← reqStr j "gmType", hasService := ← reqBool j "hasService",
         service := ← reqStr j "service", hasGMethod := ← reqBool j "hasGMethod", gmethod := ← reqStr j "gmethod" }

def dFilter (j : Json) : Except String Filter := do
  pure { type := ← reqStr j "type", present := ← reqBool j "present", scheme := ← reqStr j "scheme", hostname := ← reqStr j "hostname",
         hasPort := ← reqBool j "hasPort", port := ← reqNat j "port", code := ← reqNat j "code", pathType := ← reqStr j "pathType",
         pathValue := ← reqStr j "pathValue", set := ← (← reqArr j "set").mapM dHeader, add := ← (← reqArr j "add").mapM dHeader,
         remove := ← strs j "remove" }

def dBackend (j : Json) : Except String Backend := do
  pure { group := ← reqStr j "group", kind := ← reqStr j "kind", hasNs := ← reqBool j "hasNs", ns := ← reqStr j "ns", name := ← reqStr j "name",
         hasPort := ← reqBool j "hasPort", port := (← reqInt j "port").toNat, weight := ← reqInt j "weight", nfilters := ← reqNat j "nfilters" }

def dRule (j : Json) : Except String Rule := do
  pure { matches_ := ← (← reqArr j "matches").mapM dMatch, filters := ← (← reqArr j "filters").mapM dFilter,
         backends := ← (← reqArr j "backends").mapM dBackend }

def dParent (j : Json) : Except String ParentRef := do
  pure { group := ← reqStr j "group", kind := ← reqStr j "kind", hasNs := ← reqBool j "hasNs", ns := ← reqStr j "ns", name := ← reqStr j "name",
         hasSection := ← reqBool j "hasSection", sectionName := ← reqStr j "section", hasPort := ← reqBool j "hasPort" }

def dRoute (j : Json) : Except String Route := do
  pure { kind := ← reqStr j "kind", ns := ← reqStr j "ns", name := ← reqStr j "name", age := ← reqInt j "age",
         parents := ← (← reqArr j "parents").mapM dParent, hostnames := ← strs j "hostnames", rules := ← (← reqArr j "rules").mapM dRule }

def dListener (j : Json) : Except String Listener := do
  pure { name := ← reqStr j "name", port := (← reqInt j "port").toNat, proto := ← reqStr j "proto", hasHost := ← reqBool j "hasHost",
         host := ← reqStr j "host", hasTls := ← reqBool j "hasTls", tlsMode := ← reqStr j "tlsMode", tlsOpts := ← reqNat j "tlsOpts",
         certs := ← (← reqArr j "certs").mapM (fun c => do
           pure ({ group := ← reqStr c "group", kind := ← reqStr c "kind", hasNs := ← reqBool c "hasNs", ns := ← reqStr c "ns", name := ← reqStr c "name" } : CertRef)),
         nsFrom := ← reqStr j "from", hasSel := ← reqBool j "hasSel", selMatch := ← strMap j "selMatch", selExprs := ← reqNat j "selExprs",
         hasKinds := ← reqBool j "hasKinds",
         kinds := ← (← reqArr j "kinds").mapM (fun c => do pure (⟨← reqStr c "group", ← reqStr c "kind"⟩ : KindRef)) }

/-- C02's flat scenario (harness/c02/flat.go), same decoding as Driver/C02 and Driver/C06 -/
def dScenario (j : Json) : Except String Scenario := do
  pure { cls := ← reqStr j "class", ctlr := ← reqStr j "ctlr",
         protectedPorts := ← (← reqArr j "protected").mapM (·.getNat?),
         gcs := ← (← reqArr j "gcs").mapM (fun c => do pure (⟨← reqStr c "name", ← reqStr c "ctlr", ← reqInt c "age", ← reqBool c "params"⟩ : GatewayClass)),
         gws := ← (← reqArr j "gws").mapM (fun g => do
           pure ({ ns := ← reqStr g "ns", name := ← reqStr g "name", cls := ← reqStr g "class", age := ← reqInt g "age",
                   addresses := ← reqNat g "addresses", listeners := ← (← reqArr g "listeners").mapM dListener } : Gateway)),
         nss := ← (← reqArr j "nss").mapM (fun n => do pure (⟨← reqStr n "name", ← strMap n "labels"⟩ : Namespace)),
         routes := ← (← reqArr j "routes").mapM dRoute,
         svcs := ← (← reqArr j "svcs").mapM (fun v => do
           pure ({ ns := ← reqStr v "ns", name := ← reqStr v "name",
                   ports := ← (← reqArr v "ports").mapM (fun p => do pure (⟨(← reqInt p "port").toNat, ← reqBool p "ready"⟩ : SvcPort)) } : Svc)),
         grants := ← (← reqArr j "grants").mapM (fun g => do
           pure ({ ns := ← reqStr g "ns",
                   «from» := ← (← reqArr g "from").mapM (fun f => do pure (⟨← reqStr f "group", ← reqStr f "kind", ← reqStr f "ns"⟩ : GrantFrom)),
                   to := ← (← reqArr g "to").mapM (fun t => do pure (⟨← reqStr t "group", ← reqStr t "kind", ← reqBool t "hasName", ← reqStr t "name"⟩ : GrantTo)) } : Grant)),
         secrets := ← (← reqArr j "secrets").mapM (fun x => do pure (⟨← reqStr x "ns", ← reqStr x "name", ← reqBool x "ok"⟩ : Secret)) }


end NGF.C13Flat

namespace NGF.Resolver
open Lean (Json)

def optStrF (j : Json) (k : String) : Except String (Option String) :=
  match optField j k with
  | none => pure none
  | some v => do pure (some (← v.getStr?))

def parseWrittenRef (j : Json) : Except String NGF.RefGrant.BackendRef := do
  let port ← match optField j "port" with | none => pure none | some v => do pure (some (← v.getNat?))
  let weight ← match optField j "weight" with | none => pure none | some v => do pure (some (← v.getInt?))
  return { group := ← optStrF j "group", kind := ← optStrF j "kind", ns := ← optStrF j "ns", name := ← reqStr j "name",
           port := port, weight := weight, nfilters := ← reqNat j "nfilters" }

def parseWrittenObjs (inp : Json) : Except String NGF.RefGrant.Objs := do
  let routes ← (← reqArr inp "routes").mapM fun r => do
    let rules ← (← reqArr r "rules").mapM fun ru => do
      return ({ paths := [], refs := ← (← reqArr ru "refs").mapM parseWrittenRef } : NGF.RefGrant.RRule)
    return ({ kind := .http, ns := ← reqStr r "ns", name := ← reqStr r "name", rules := rules } : NGF.RefGrant.Route)
  let grants ← (← reqArr inp "grants").mapM fun g => do
    let froms ← (← reqArr g "from").mapM fun f => do
      return ({ group := ← reqStr f "group", kind := ← reqStr f "kind", ns := ← reqStr f "ns" } : NGF.RefGrant.GrantFrom)
    let tos ← (← reqArr g "to").mapM fun t => do
      return ({ group := ← reqStr t "group", kind := ← reqStr t "kind", name := ← optStrF t "name" } : NGF.RefGrant.GrantTo)
    return ({ ns := ← reqStr g "ns", name := ← reqStr g "name", froms := froms, tos := tos } : NGF.RefGrant.Grant)
  return { grants := grants, routes := routes, gateways := [], secrets := [] }

structure PipeEIn where
  c : Except String NGF.PipelineEndpoints.ScenarioE   -- error = why the case is outside the fragment
  ports : List NGF.PipelineEndpoints.PortInfo
  slices : List Slice

def parsePipeEIn (inp : Json) : Except String PipeEIn := do
  let flat ← NGF.C13Flat.dScenario (← inp.getObjVal? "flat")
  let objs ← parseWrittenObjs inp
  let ports ← (← reqArr inp "ports").mapM fun p => do
    return (⟨← reqStr p "ns", ← reqStr p "name", ← parseSvcPort (← p.getObjVal? "sp")⟩ : NGF.PipelineEndpoints.PortInfo)
  let slices ← (← reqArr inp "slices").mapM parseSlice
  let c := match NGF.PipelineRefsTie.toScenarioR flat objs with
    | .ok base => .ok { base := base, ports := ports, slices := slices }
    | .error e => .error e
  return ⟨c, ports, slices⟩

def modelPipeE (i : PipeEIn) : Json :=
  match i.c with
  | .error e => Json.mkObj [("inFragment", false), ("why", e)]
  | .ok c =>
    Json.mkObj [("inFragment", true),
      ("conf", Json.arr ((NGF.PipelineEndpoints.upstreamsOf c).map upJson).toArray),
      ("upstreams", Json.arr ((NGF.PipelineEndpoints.httpUpstreams c).map ngxJson).toArray),
      ("targets", Json.arr ((((NGF.PipelineRefs.confTargets (NGF.PipelineRefs.genR c.base)).filter (·.2 != 0)).map
          (fun t => String.ofList t.1)).eraseDups.map Json.str).toArray),
      ("backends", (NGF.PipelineEndpoints.backends c).length)]

/-- The property on the real output, independent of the pipeline model: every upstream of the real configuration has
exactly one block in http.conf whose `server` lines are its endpoints (503 placeholder when none); every block belongs to
an upstream of the configuration (or is `invalid-backend-ref`); the endpoints of an upstream named after a Service
port satisfy the resolution clauses for that Service; every upstream name the real http.conf proxies to is defined. -/
def judgePipeELine (i : PipeEIn) (out : Json) : Except String String := do
  if (optField out "panic").isSome then return "fail pipeE_panic"
  if (optField out "noConf").isSome then return "skip no configuration"
  let conf ← (← reqArr out "conf").mapM parseUp
  let blocks ← (← reqArr out "upstreams").mapM fun b => do
    return (← reqStr b "name", ← parseStrs b "servers")
  let allowed := getAllowedAddressType .dual
  let mut fails : List String := []
  for u in conf do
    match blocks.filter (·.1 = u.name) with
    | [(_, servers)] => fails := fails ++ (judgeServers u.eps servers).map ("pipeE_" ++ ·)
    | [] => fails := fails ++ ["pipeE_upstream_block_missing"]
    | _ => fails := fails ++ ["pipeE_upstream_block_duplicated"]
    for p in i.ports do
      if p.ns ++ "_" ++ p.name ++ "_" ++ toString p.sp.port = u.name then
        -- the first spec.ports entry with this number is the one the graph uses
        match i.ports.find? (fun q => q.ns == p.ns && q.name == p.name && q.sp.port == p.sp.port) with
        | some q =>
          if q == p && admissible i.slices p.ns p.name p.sp allowed then
            fails := fails ++ (judgeResolve i.slices p.ns p.name p.sp allowed u.eps).map ("pipeE_" ++ ·)
        | none => pure ()
  for b in blocks do
    if b.1 ≠ "invalid-backend-ref" && !(conf.any (·.name = b.1)) then fails := fails ++ ["pipeE_block_without_upstream"]
  -- every upstream the REAL http.conf proxies to (proxy_pass, split_clients values with a non-zero share) is defined once
  for n in (← parseStrs out "proxied") do
    match blocks.filter (·.1 = n) with
    | [_] => pure ()
    | [] => fails := fails ++ ["pipeE_proxied_upstream_undefined"]
    | _ => fails := fails ++ ["pipeE_proxied_upstream_defined_twice"]
  return verdict fails

/-! ### seq: serversEqual alone -/

/-- on duplicate-free lists `serversEqual` must say exactly "same set" -/
def judgeSeq (new old : List String) (eq eqS : Bool) : String :=
  if eq ≠ eqS then "fail seq_http_stream_disagree"
  else if !(nodupB new && nodupB old) then "skip duplicates"
  else if eq = sameSet new old then "ok" else "fail seq_not_seteq"

/-! ### lines -/

def handle (mode : String) (line : String) : String :=
  match Json.parse line with
  | .error _ => "bad-op"
  | .ok j =>
    let r : Except String String := do
      let k ← reqStr j "k"
      let inp ← j.getObjVal? "in"
      let out := (j.getObjVal? "out").toOption.getD Json.null
      if k = "resolve" then
        let i ← parseResolveIn inp
        if mode = "model" then return (modelResolve i).compress else judgeResolveLine i out
      else if k = "pipe" then
        let i ← parsePipeIn inp
        if mode = "model" then return (modelPipe i).compress else judgePipeLine i out
      else if k = "plus" then
        let ops ← (← reqArr inp "ops").mapM parseOp
        if mode = "model" then return (modelPlus ops).compress else judgePlusLine ops out
      else if k = "e2e" then
        let fam := parseFam (← reqStr inp "fam")
        let ops ← (← reqArr inp "ops").mapM parseE2EOp
        if mode = "model" then return (modelE2E fam ops).compress else judgeE2ELine fam ops out
      else if k = "faults" then
        let fam := parseFam (← reqStr inp "fam")
        let plus ← reqBool inp "plus"
        let ops ← (← reqArr inp "ops").mapM parseFaultOp
        if mode = "model" then return (modelFaults fam plus ops).compress else judgeFaultsLine fam plus ops out
      else if k = "hist" then
        let plus ← reqBool inp "plus"
        let bs ← parseBatches inp
        if mode = "model" then return (modelHist plus bs).compress else judgeHistLine plus bs out
      else if k = "pipeE" then
        let i ← parsePipeEIn inp
        if mode = "model" then return (modelPipeE i).compress else judgePipeELine i out
      else if k = "seq" then
        let new ← parseStrs inp "new"
        let old ← parseStrs inp "old"
        if mode = "model" then
          let e := serversEqual new old
          return (Json.mkObj [("eq", e), ("eqStream", e)]).compress
        else return judgeSeq new old (← reqBool out "eq") (← reqBool out "eqStream")
      else throw "unknown kind"
    match r with
    | .ok s => s
    | .error _ => "bad-op"

def driver (args : List String) : IO UInt32 := do
  let stdin ← IO.getStdin
  let stdout ← IO.getStdout
  match args with
  | ["model"] => NGF.Proto.forEachLine stdin fun l => stdout.putStrLn (handle "model" l)
  | ["judge"] => NGF.Proto.forEachLine stdin fun l => stdout.putStrLn (handle "judge" l)
  | _ => IO.eprintln "usage: C13 model|judge"; return 2
  return 0

end NGF.Resolver

/-- executable entry point: `ngfdriver_C13 model|judge` -/
def main (args : List String) : IO UInt32 := NGF.Resolver.driver args
