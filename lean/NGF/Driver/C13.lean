import Lean.Data.Json
import NGF.Model.Resolver
import NGF.Model.ResolverSpec
import NGF.Model.Proto
/-
Driver entry for C13.  Every input line is one JSON object `{"k":mode,"id":n,"in":{…},"out":{…}}` as
written by harness/c13 ("out" = what the REAL code produced).
  `model` : recompute "out" from "in" with the Lean model, print it as JSON (lists unordered)
  `judge` : evaluate the property on "in" and the real "out": `ok` | `skip <why>` | `fail <clause>,<clause>…`
Undecodable input answers `bad-op`.
-/
namespace NGF.Resolver
open Lean (Json)

/-! ### decoding -/

def optField (j : Json) (k : String) : Option Json :=
  match j.getObjVal? k with
  | .ok v => if v.isNull then none else some v
  | .error _ => none

def reqStr (j : Json) (k : String) : Except String String := do (← j.getObjVal? k).getStr?
def reqNat (j : Json) (k : String) : Except String Nat := do (← j.getObjVal? k).getNat?
def reqBool (j : Json) (k : String) : Except String Bool := do (← j.getObjVal? k).getBool?
def reqArr (j : Json) (k : String) : Except String (List Json) := do
  match j.getObjVal? k with
  | .ok v => if v.isNull then pure [] else return (← v.getArr?).toList
  | .error _ => pure []

def parseAddrType (s : String) : AddrType :=
  if s = "IPv4" then .ipv4 else if s = "IPv6" then .ipv6 else if s = "FQDN" then .fqdn else .other

def parsePort (j : Json) : Except String EndpointPort := do
  let name ← match optField j "name" with
    | none => pure none
    | some v => do pure (some (← v.getStr?))
  let port ← match optField j "port" with
    | none => pure none
    | some v => do pure (some (← v.getNat?))
  return ⟨name, port⟩

def parseEndpoint (j : Json) : Except String Endpoint := do
  let addrs ← (← reqArr j "addrs").mapM (·.getStr?)
  let ready ← match optField j "ready" with
    | none => pure none
    | some v => do pure (some (← v.getBool?))
  return ⟨addrs, ready⟩

def parseSlice (j : Json) : Except String Slice := do
  let label ← match optField j "label" with
    | none => pure none
    | some v => do pure (some (← v.getStr?))
  return { ns := ← reqStr j "ns", svcLabel := label, addrType := parseAddrType (← reqStr j "type"),
           ports := ← (← reqArr j "ports").mapM parsePort,
           endpoints := ← (← reqArr j "eps").mapM parseEndpoint }

def parseSvcPort (j : Json) : Except String SvcPort := do
  let tp ← match optField j "tps", optField j "tpi" with
    | some v, _ => do pure (TargetPort.str (← v.getStr?))
    | none, some v => do pure (TargetPort.int (← v.getNat?))
    | none, none => pure (TargetPort.int 0)
  return ⟨← reqStr j "name", ← reqNat j "port", tp⟩

def parseFam (s : String) : IPFamily :=
  if s = "ipv4" then .ipv4 else if s = "ipv6" then .ipv6 else if s = "dual" then .dual else .other

def parseEp (j : Json) : Except String Ep := do
  return ⟨← reqStr j "a", ← reqNat j "p", ← reqBool j "v6"⟩

def parseUp (j : Json) : Except String Up := do
  return ⟨← reqStr j "name", ← (← reqArr j "eps").mapM parseEp⟩

def parseStrs (j : Json) (k : String) : Except String (List String) := do
  (← reqArr j k).mapM (·.getStr?)

/-- `{"name":[servers]}` object → table -/
def parseTable (j : Json) (k : String) : Except String Table := do
  match optField j k with
  | none => pure []
  | some v =>
    let o ← v.getObj?
    o.toList.mapM fun (n, l) => do return (n, ← (← l.getArr?).toList.mapM (·.getStr?))

/-! ### encoding -/

def epJson (e : Ep) : Json :=
  Json.mkObj [("a", e.address), ("p", e.port), ("v6", e.ipv6)]

def strsJson (l : List String) : Json := Json.arr (l.map Json.str).toArray

def tableJson (t : Table) : Json := Json.mkObj (t.map fun (n, l) => (n, strsJson l))

def ngxJson (u : NgxUpstream) : Json :=
  Json.mkObj [("name", u.name), ("zone", u.zoneSize), ("state", u.stateFile),
              ("servers", strsJson (configServers u))]

def resName : Res → String
  | .panic => "panic" | .errNoEndpoints => "errNoEndpoints" | .errNoValid => "errNoValid" | .ok _ => "ok"

/-! ### resolve -/

structure ResolveIn where
  slices : List Slice
  ns : String
  name : String
  sp : SvcPort
  allowed : List AddrType

def parseResolveIn (j : Json) : Except String ResolveIn := do
  return { slices := ← (← reqArr j "slices").mapM parseSlice, ns := ← reqStr j "ns", name := ← reqStr j "name",
           sp := ← parseSvcPort (← j.getObjVal? "sp"), allowed := (← parseStrs j "allowed").map parseAddrType }

def modelResolve (i : ResolveIn) : Json :=
  let r := resolve i.slices i.ns i.name i.sp i.allowed
  Json.mkObj [("res", resName r), ("eps", Json.arr (r.eps.map epJson).toArray)]

def verdict (fails : List String) : String :=
  if fails.isEmpty then "ok" else "fail " ++ ",".intercalate fails.eraseDups

def judgeResolveLine (i : ResolveIn) (out : Json) : Except String String := do
  let eps ← (← reqArr out "eps").mapM parseEp
  let res ← reqStr out "res"
  if !admissible i.slices i.ns i.name i.sp i.allowed then return "skip inadmissible"
  if res = "panic" then return "fail resolve_panic"
  return verdict (judgeResolve i.slices i.ns i.name i.sp i.allowed eps)

/-! ### pipe -/

structure Ref where
  ns : String
  name : String
  sp : SvcPort
  stream : Bool

def parseRef (j : Json) : Except String Ref := do
  return ⟨← reqStr j "ns", ← reqStr j "name", ← parseSvcPort (← j.getObjVal? "sp"), ← reqBool j "stream"⟩

/-- `BackendRef.ServicePortReference` -/
def upstreamName (r : Ref) : String := r.ns ++ "_" ++ r.name ++ "_" ++ toString r.sp.port

/-- `buildUpstreams` / `buildStreamUpstreams`: one upstream per distinct name, first reference wins -/
def buildUps (slices : List Slice) (fam : IPFamily) : List Ref → List String → List Up
  | [], _ => []
  | r :: rs, seen =>
    let n := upstreamName r
    if n ∈ seen then buildUps slices fam rs seen
    else ⟨n, upstreamEndpoints slices r.ns r.name r.sp fam⟩ :: buildUps slices fam rs (n :: seen)

def invalidBackendRef : NgxUpstream :=
  { name := "invalid-backend-ref", zoneSize := "", stateFile := "",
    servers := ["unix:/var/run/nginx/nginx-500-server.sock"] }

structure PipeIn where
  slices : List Slice
  fam : IPFamily
  plus : Bool
  refs : List Ref

def parsePipeIn (j : Json) : Except String PipeIn := do
  return { slices := ← (← reqArr j "slices").mapM parseSlice, fam := parseFam (← reqStr j "fam"),
           plus := ← reqBool j "plus", refs := ← (← reqArr j "refs").mapM parseRef }

def upJson (u : Up) : Json := Json.mkObj [("name", u.name), ("eps", Json.arr (u.eps.map epJson).toArray)]

def modelPipe (i : PipeIn) : Json :=
  let http := buildUps i.slices i.fam (i.refs.filter (!·.stream)) []
  let stream := buildUps i.slices i.fam (i.refs.filter (·.stream)) []
  let c : Conf := ⟨http, stream⟩
  let httpConf := http.map (createUpstream i.plus) ++ [invalidBackendRef]
  let streamConf := createStreamUpstreams i.plus stream
  -- the reload path: load the files, then (Plus) push the endpoints through the API
  let a := if i.plus then step ⟨[], []⟩ (.reload c) else ⟨[], []⟩
  let af := if i.plus then stepFixed ⟨[], []⟩ (.reload c) else ⟨[], []⟩
  let view (conf : List NgxUpstream) (t : Table) : Table :=
    conf.map fun u => (u.name, if u.stateFile ≠ "" then t.servers u.name else u.servers)
  Json.mkObj [("http", Json.arr (http.map upJson).toArray), ("stream", Json.arr (stream.map upJson).toArray),
    ("httpConf", Json.arr (httpConf.map ngxJson).toArray),
    ("streamConf", Json.arr (streamConf.map ngxJson).toArray),
    ("view", Json.mkObj [("http", tableJson (view httpConf a.http)), ("stream", tableJson (view streamConf a.stream))]),
    ("viewFixedA", Json.mkObj [("http", tableJson (view httpConf af.http)), ("stream", tableJson (view streamConf af.stream))])]

def findUp (ups : List Up) (n : String) : Option Up := ups.find? (·.name = n)

/-- the property on the real pipeline output: for every reference, the endpoints the real code resolved
satisfy the resolution clauses, and the servers NGINX ends up with are those endpoints / the placeholder -/
def judgePipeLine (i : PipeIn) (out : Json) : Except String String := do
  let http ← (← reqArr out "http").mapM parseUp
  let stream ← (← reqArr out "stream").mapM parseUp
  let view ← out.getObjVal? "view"
  let vh ← parseTable view "http"
  let vs ← parseTable view "stream"
  if (optField out "err").isSome then return "fail pipe_error"
  let allowed := getAllowedAddressType i.fam
  let mut fails : List String := []
  let mut skipped := 0
  for r in i.refs do
    if !admissible i.slices r.ns r.name r.sp allowed then
      skipped := skipped + 1
      continue
    let n := upstreamName r
    match findUp (if r.stream then stream else http) n with
    | none => fails := fails ++ ["upstream_missing"]
    | some u =>
      fails := fails ++ judgeResolve i.slices r.ns r.name r.sp allowed u.eps
      if r.stream then
        fails := fails ++ judgeStreamServers u.eps (Table.servers vs n)
      else
        fails := fails ++ (judgeServers u.eps (Table.servers vh n)).map
          fun c => if i.plus && c = "empty_no_503" then "plus_empty_no_503" else c
  if skipped = i.refs.length then return "skip inadmissible"
  return verdict fails

/-! ### plus -/

def parseOp (j : Json) : Except String Op := do
  let c : Conf := ⟨← (← reqArr j "http").mapM parseUp, ← (← reqArr j "stream").mapM parseUp⟩
  let op ← reqStr j "op"
  if op = "reload" then return .reload c
  else if op = "endpoints" then return .endpoints c
  else throw "bad op"

/-- the view the harness reports: every upstream of the loaded configuration with its servers -/
def apiJson (a : Api) : Json := Json.mkObj [("http", tableJson a.http), ("stream", tableJson a.stream)]

def runViews (a : Api) : List Op → List Api
  | [] => []
  | o :: os => step a o :: runViews (step a o) os

/-- the same history under the repaired variants (see `stepV`) -/
def runViewsV (fixA fixB : Bool) (a : Api) : List Op → List Api
  | [] => []
  | o :: os => stepV fixA fixB a o :: runViewsV fixA fixB (stepV fixA fixB a o) os

def variantViews (ops : List Op) : List (String × Json) :=
  [("viewsFixedA", Json.arr ((runViewsV true false ⟨[], []⟩ ops).map apiJson).toArray),
   ("viewsFixedB", Json.arr ((runViewsV false true ⟨[], []⟩ ops).map apiJson).toArray),
   ("viewsFixedAB", Json.arr ((runViewsV true true ⟨[], []⟩ ops).map apiJson).toArray)]

def modelPlus (ops : List Op) : Json :=
  Json.mkObj ([("views", Json.arr ((runViews ⟨[], []⟩ ops).map apiJson).toArray)] ++ variantViews ops)

/-- convertEndpoints agrees with serverAddress when no port is 0 (the resolver never returns port 0) -/
def judgePlusOp (c : Conf) (isReload : Bool) (vh vs : Table) (alt : Option (Table × Table)) : List String :=
  let h := c.http.flatMap fun u =>
    (judgeServers u.eps (vh.servers u.name)).map fun f =>
      if f = "empty_no_503" then "plus_empty_no_503" else "plus_http_" ++ f
  let s := c.stream.flatMap fun u =>
    (judgeStreamServers u.eps (vs.servers u.name)).map fun f =>
      if f = "stream_servers_differ" && !isReload && (vs.get u.name).isNone then "plus_stream_upstream_absent"
      else "plus_" ++ f
  let d := match alt with
    | none => []
    | some (ah, as) =>
      (c.http.flatMap fun u => if sameSet (vh.servers u.name) (ah.servers u.name) then [] else ["plus_http_differs_from_reload"]) ++
      (c.stream.flatMap fun u => if sameSet (vs.servers u.name) (as.servers u.name) then []
        else if (vs.get u.name).isNone then ["plus_stream_upstream_absent"] else ["plus_stream_differs_from_reload"])
  h ++ s ++ d

def judgePlusLine (ops : List Op) (out : Json) : Except String String := do
  let views ← reqArr out "views"
  let alts ← reqArr out "alts"
  let errs ← reqArr out "errs"
  if views.length ≠ ops.length then return "fail plus_missing_views"
  let mut fails : List String := if errs.isEmpty then [] else ["plus_update_error"]
  for (o, (v, alt)) in ops.zip (views.zip alts) do
    let vh ← parseTable v "http"
    let vs ← parseTable v "stream"
    let a ← if alt.isNull then pure none else do pure (some (← parseTable alt "http", ← parseTable alt "stream"))
    let isReload := match o with | .reload _ => true | _ => false
    fails := fails ++ judgePlusOp o.conf isReload vh vs a
  return verdict fails

/-! ### e2e: sequences of EndpointSlice changes through the real HandleEventBatch -/

structure E2EOp where
  reload : Bool
  slices : List Slice
  refs : List Ref

def parseE2EOp (j : Json) : Except String E2EOp := do
  let op ← reqStr j "op"
  if op ≠ "reload" && op ≠ "endpoints" then throw "bad op"
  return ⟨op = "reload", ← (← reqArr j "slices").mapM parseSlice, ← (← reqArr j "refs").mapM parseRef⟩

def E2EOp.conf (fam : IPFamily) (o : E2EOp) : Conf :=
  ⟨buildUps o.slices fam (o.refs.filter (!·.stream)) [], buildUps o.slices fam (o.refs.filter (·.stream)) []⟩

def E2EOp.op (fam : IPFamily) (o : E2EOp) : Op :=
  if o.reload then .reload (o.conf fam) else .endpoints (o.conf fam)

def confJson (c : Conf) : Json :=
  Json.mkObj [("http", Json.arr (c.http.map upJson).toArray), ("stream", Json.arr (c.stream.map upJson).toArray)]

def modelE2E (fam : IPFamily) (ops : List E2EOp) : Json :=
  Json.mkObj ([("confs", Json.arr (ops.map fun o => confJson (o.conf fam)).toArray),
              ("views", Json.arr ((runViews ⟨[], []⟩ (ops.map (·.op fam))).map apiJson).toArray)] ++
              variantViews (ops.map (·.op fam)))

def judgeE2ELine (fam : IPFamily) (ops : List E2EOp) (out : Json) : Except String String := do
  let confs ← reqArr out "confs"
  let views ← reqArr out "views"
  let alts ← reqArr out "alts"
  let errs ← reqArr out "errs"
  if views.length ≠ ops.length || confs.length ≠ ops.length then return "fail e2e_missing_views"
  let allowed := getAllowedAddressType fam
  let mut fails : List String := if errs.isEmpty then [] else ["e2e_error"]
  for (o, (cj, (v, alt))) in ops.zip (confs.zip (views.zip alts)) do
    let http ← (← reqArr cj "http").mapM parseUp
    let stream ← (← reqArr cj "stream").mapM parseUp
    for r in o.refs do
      if admissible o.slices r.ns r.name r.sp allowed then
        match findUp (if r.stream then stream else http) (upstreamName r) with
        | none => fails := fails ++ ["upstream_missing"]
        | some u => fails := fails ++ judgeResolve o.slices r.ns r.name r.sp allowed u.eps
    let vh ← parseTable v "http"
    let vs ← parseTable v "stream"
    let a ← if alt.isNull then pure none else do pure (some (← parseTable alt "http", ← parseTable alt "stream"))
    fails := fails ++ judgePlusOp ⟨http, stream⟩ o.reload vh vs a
  return verdict fails

/-! ### seq: serversEqual alone -/

/-- on duplicate-free lists `serversEqual` must say exactly "same set" -/
def judgeSeq (new old : List String) (eq eqS : Bool) : String :=
  if eq ≠ eqS then "fail seq_http_stream_disagree"
  else if !(nodupB new && nodupB old) then "skip duplicates"
  else if eq = sameSet new old then "ok" else "fail seq_not_seteq"

/-! ### lines -/

def handle (mode : String) (line : String) : String :=
  match Json.parse line with
  | .error _ => "bad-op"
  | .ok j =>
    let r : Except String String := do
      let k ← reqStr j "k"
      let inp ← j.getObjVal? "in"
      let out := (j.getObjVal? "out").toOption.getD Json.null
      if k = "resolve" then
        let i ← parseResolveIn inp
        if mode = "model" then return (modelResolve i).compress else judgeResolveLine i out
      else if k = "pipe" then
        let i ← parsePipeIn inp
        if mode = "model" then return (modelPipe i).compress else judgePipeLine i out
      else if k = "plus" then
        let ops ← (← reqArr inp "ops").mapM parseOp
        if mode = "model" then return (modelPlus ops).compress else judgePlusLine ops out
      else if k = "e2e" then
        let fam := parseFam (← reqStr inp "fam")
        let ops ← (← reqArr inp "ops").mapM parseE2EOp
        if mode = "model" then return (modelE2E fam ops).compress else judgeE2ELine fam ops out
      else if k = "seq" then
        let new ← parseStrs inp "new"
        let old ← parseStrs inp "old"
        if mode = "model" then
          let e := serversEqual new old
          return (Json.mkObj [("eq", e), ("eqStream", e)]).compress
        else return judgeSeq new old (← reqBool out "eq") (← reqBool out "eqStream")
      else throw "unknown kind"
    match r with
    | .ok s => s
    | .error _ => "bad-op"

def driver (args : List String) : IO UInt32 := do
  let stdin ← IO.getStdin
  let stdout ← IO.getStdout
  match args with
  | ["model"] => NGF.Proto.forEachLine stdin fun l => stdout.putStrLn (handle "model" l)
  | ["judge"] => NGF.Proto.forEachLine stdin fun l => stdout.putStrLn (handle "judge" l)
  | _ => IO.eprintln "usage: C13 model|judge"; return 2
  return 0

end NGF.Resolver

/-- executable entry point: `ngfdriver_C13 model|judge` -/
def main (args : List String) : IO UInt32 := NGF.Resolver.driver args
