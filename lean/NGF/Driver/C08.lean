import NGF.Model.StatusWrite
import NGF.Model.StatusDrift
import NGF.Model.StatusLimits
import NGF.Model.Proto
/-
Driver entry for C08.

Encoding (harness/c08/enc.go is the other end). Every string is escaped: characters other than
letters, digits and `_ . : / -` are written `%<hex code point>$`; `~` is a nil pointer, `*` an empty list.
  cond    = type,status,reason,message,gen,time
  conds   = cond&cond…            entry = ctlr|ref,ref,…|conds          status = entry;entry…
  statuses = status#status…

  model line : kind=<K> ctlr=<c> steps=<n> new=<status> store=<status> sched=<op,op…> pokes=<statuses>
               ops: g (get error) n (not found) u (update error) c<i> (conflict, store := pokes[i]) o (ok);
               prefix e<i>+ : another writer stored pokes[i] right before this attempt's Get (live drift)
               optional snap=<status>: status of the object the computed status was derived from (ignored by the model)
  output     : primary=<R> mutating=<R>   with R = calls:<g1,u0,…>/subs:<statuses>/store:<status>/inv:<n>
               (primary = the code in the tree, `Setter.invoke`; mutating = pre-fix regression variant)
  judge line : kind= ctlr= steps= new=<status> calls=<g1,g0,gn,u1,u0…> gets=<statuses> subs=<statuses> done=<1|0|->
               gn = Get answered NotFound; done = what the retry function returned last (- = not observed)
               optional snap=<status> (see above): used only to NAME a failure (live drift or not)
  output     : ok <stats> | fail <clause> <detail>
  dedup line : conds=<conds>      output: <conds>
  attach line: ctlr= max= cur=<status> targets=<n>   output: own=<n> btpfull=<0|1>
-/
namespace NGF.StatusWrite
open NGF.Proto

/-! #### decoding -/

def hexVal (c : Char) : Option Nat :=
  if '0' ≤ c && c ≤ '9' then some (c.toNat - '0'.toNat)
  else if 'a' ≤ c && c ≤ 'f' then some (c.toNat - 'a'.toNat + 10)
  else none

def unescL : List Char → Option Nat → List Char → Option (List Char)
  | [], none, acc => some acc.reverse
  | [], some _, _ => none
  | c :: cs, none, acc => if c == '%' then unescL cs (some 0) acc else unescL cs none (c :: acc)
  | c :: cs, some v, acc =>
    if c == '$' then unescL cs none (Char.ofNat v :: acc)
    else match hexVal c with
      | some d => unescL cs (some (v * 16 + d)) acc
      | none => none

def unesc (s : String) : Option String := (unescL s.toList none []).map String.ofList

def okChar (c : Char) : Bool :=
  isAlnum c || c == '_' || c == '.' || c == ':' || c == '/' || c == '-'

def hexDigits (n : Nat) : List Char := (Nat.toDigits 16 n)

def esc (s : String) : String :=
  String.ofList (s.toList.flatMap fun c => if okChar c then [c] else '%' :: hexDigits c.toNat ++ ['$'])

def parseInt (s : String) : Option Int :=
  if s.startsWith "-" then (s.drop 1).toString.toNat?.map fun n => -(Int.ofNat n)
  else s.toNat?.map Int.ofNat

def parseCond (s : String) : Option Cond :=
  match s.splitOn "," with
  | [t, st, r, m, g, tm] => do
    let t ← unesc t; let st ← unesc st; let r ← unesc r; let m ← unesc m
    let g ← parseInt g; let tm ← tm.toNat?
    pure { type := t, status := st, reason := r, message := m, gen := g, time := tm }
  | _ => none

def parseConds (s : String) : Option (List Cond) :=
  if s == "*" then some [] else (s.splitOn "&").mapM parseCond

/-- a reference field: `~` stays `~` (nil), anything else is unescaped -/
def parseRefField (s : String) : Option String := if s == "~" then some "~" else unesc s

def parseEntry (s : String) : Option Entry :=
  match s.splitOn "|" with
  | [c, r, cs] => do
    let c ← unesc c
    let r ← if r == "*" then some [] else (r.splitOn ",").mapM parseRefField
    let cs ← parseConds cs
    pure { ctlr := c, ref := r, conds := cs }
  | _ => none

def parseStatus (s : String) : Option Status :=
  if s == "*" then some [] else (s.splitOn ";").mapM parseEntry

def parseStatuses (s : String) : Option (List Status) :=
  if s == "" then some [] else (s.splitOn "#").mapM parseStatus

def showCond (c : Cond) : String :=
  s!"{esc c.type},{esc c.status},{esc c.reason},{esc c.message},{c.gen},{c.time}"

def showConds (cs : List Cond) : String :=
  if cs.isEmpty then "*" else "&".intercalate (cs.map showCond)

def showRefField (s : String) : String := if s == "~" then "~" else esc s

def showEntry (e : Entry) : String :=
  let r := if e.ref.isEmpty then "*" else ",".intercalate (e.ref.map showRefField)
  s!"{esc e.ctlr}|{r}|{showConds e.conds}"

def showStatus (s : Status) : String :=
  if s.isEmpty then "*" else ";".intercalate (s.map showEntry)

def showStatuses (l : List Status) : String := "#".intercalate (l.map showStatus)

/-! #### model -/

def parseOp (pokes : List Status) (s : String) : Option Op :=
  if s == "g" then some .getErr
  else if s == "n" then some .notFound
  else if s == "u" then some (.updFail none)
  else if s == "o" then some .ok
  else if s.startsWith "c" then do
    let i ← (s.drop 1).toString.toNat?
    let p ← pokes[i]?
    pure (.updFail (some p))
  else none

/-- `e<i>+<op>`: the edit `pokes[i]` precedes the attempt -/
def parseStep (pokes : List Status) (s : String) : Option Step :=
  if s.startsWith "e" then
    match s.splitOn "+" with
    | [e, o] => do
      let i ← (e.drop 1).toString.toNat?
      let p ← pokes[i]?
      let op ← parseOp pokes o
      pure ⟨some p, op⟩
    | _ => none
  else (parseOp pokes s).map fun op => ⟨none, op⟩

def showCall : Call → String
  | .get true => "g1" | .get false => "g0"
  | .update _ _ true => "u1" | .update _ _ false => "u0"

def subsOf (cs : List Call) : List Status :=
  cs.filterMap fun | .update _ sub _ => some sub | _ => none

def showRun (r : Run) : String :=
  let calls := if r.calls.isEmpty then "*" else ",".intercalate (r.calls.map showCall)
  s!"calls:{calls}/subs:{showStatuses (subsOf r.calls)}/store:{showStatus r.store}/inv:{r.invocations}"

def modelLine (line : String) : String :=
  let fs := line.splitOn " "
  match field fs "kind" >>= kindOf, field fs "ctlr" >>= unesc, field fs "steps" >>= String.toNat?,
        field fs "new" >>= parseStatus, field fs "store" >>= parseStatus,
        field fs "pokes" >>= parseStatuses, field fs "sched" with
  | some k, some ctlr, some steps, some new, some store, some pokes, some sched =>
    match (if sched == "*" then some [] else (sched.splitOn ",").mapM (parseStep pokes)) with
    | some script =>
      let s : Setter := { kind := k, ctlr := ctlr, cap := new }
      let f := runLive Setter.invoke steps (Run.init s store) script
      let b := runLive Setter.invokeMutating steps (Run.init s store) script
      s!"primary={showRun f} mutating={showRun b}"
    | none => "bad-op"
  | _, _, _, _, _, _, _ => "bad-op"

/-! #### judge: the property evaluated on what the real code did -/

def keyOf (k : Kind) (e : Entry) : String × List String × List Cond :=
  (e.ctlr, pick k.idx e.ref, e.conds.map fun c => { c with time := 0 })

def wholeKeyOf (e : Entry) : List String × List Cond :=
  (e.ref.map norm, e.conds.map fun c => { c with time := 0 })

def nodupBy {β : Type} [DecidableEq β] (f : Entry → β) : List Entry → Bool
  | [] => true
  | e :: es => !(es.any fun d => f d == f e) && nodupBy f es

/-- own entries equal modulo lastTransitionTime, as sets of (controller, compared ref, conditions) -/
def sameOwnSet (k : Kind) (ctlr : String) (prev new : Status) : Bool :=
  let po := own ctlr prev
  po.all (fun p => new.any fun n => keyOf k p == keyOf k n) &&
  new.all (fun n => po.any fun p => keyOf k p == keyOf k n)

def sameOwnList (k : Kind) (ctlr : String) (prev new : Status) : Bool :=
  (own ctlr prev).map (keyOf k) == new.map (keyOf k)

def countOf (e : Entry) (l : Status) : Nat := (l.filter (· == e)).length

structure JStats where
  invocations : Nat := 0
  updates : Nat := 0
  dupOwnPrev : Nat := 0     -- invocations whose fetched status had duplicated own entries
  dupOwnKept : Nat := 0     -- … and where the setter therefore left duplicates in place
  deriving Repr

/-- Clauses for one setter invocation that saw `prev`; `sub` is what was submitted, if anything.
`idx` counts invocations from 1. -/
def judgeInvocation (k : Kind) (ctlr : String) (lim : Limits) (snap : Option Status) (new prev : Status)
    (sub : Option Status) (idx : Nat) (st : JStats) : Except String JStats :=
  let st := { st with invocations := st.invocations + 1 }
  if k.mode == .whole then
    let same := prev.map wholeKeyOf == new.map wholeKeyOf
    match sub with
    | none => if same then .ok st else .error s!"write-missing inv={idx}"
    | some s =>
      if same then .error s!"noop-violated inv={idx}"
      else if s != new then .error s!"own-not-replaced inv={idx}"
      else match statusViolation { lim with minConds := 0 } false s with
        | some v => .error s!"{v} inv={idx}"
        | none => .ok { st with updates := st.updates + 1 }
  else
    let po := own ctlr prev
    let dups := !(nodupBy (keyOf k) po)
    let st := if dups then { st with dupOwnPrev := st.dupOwnPrev + 1 } else st
    match sub with
    | none =>
      -- no write: allowed only when the own entries are unchanged modulo time
      if !(sameOwnSet k ctlr prev new) then .error s!"write-missing inv={idx}"
      else if dups && !(sameOwnList k ctlr prev new) then .ok { st with dupOwnKept := st.dupOwnKept + 1 }
      else .ok st
    | some s =>
      let fp := foreign ctlr prev
      let fs := foreign ctlr s
      if fs != fp then
        let nothingLost := fp.all fun e => countOf e fs ≥ countOf e fp
        if idx ≥ 2 && nothingLost then .error s!"retry-duplicates-foreign inv={idx}"
        -- the LIVE object's foreign entries differ from those of the object the status was computed from,
        -- and the write did not keep the live ones exactly (content, order, multiplicity)
        else if snap.any (fun sn => foreign ctlr sn != fp) then
          .error s!"foreign-entries-altered inv={idx} live={fp.length} submitted={fs.length}"
        else .error s!"foreign-not-preserved inv={idx}"
      else if own ctlr s != new then .error s!"own-not-replaced inv={idx}"
      else if sameOwnList k ctlr prev new || (!dups && sameOwnSet k ctlr prev new) then
        .error s!"noop-violated inv={idx}"
      else match statusViolation lim true s with
        | some v =>
          -- naming only: the computed entries fitted beside the foreign entries of the snapshot, the live
          -- object holds more foreign entries (another controller added some before the write landed)
          let drift := v == "entries-exceed-maxItems" && snap.any fun sn =>
            (foreign ctlr sn).length + new.length ≤ lim.maxEntries && (foreign ctlr sn).length < fp.length
          .error (s!"{v} inv={idx}" ++ (if drift then s!" drift=1 live={fp.length} own={new.length}" else ""))
        | none => .ok { st with updates := st.updates + 1 }

/-- Walk the observed client calls. `pending` = status returned by a successful Get whose setter
invocation has not been matched with an Update yet. -/
def judgeCalls (k : Kind) (ctlr : String) (lim : Limits) (snap : Option Status) (new : Status) :
    List String → List Status → List Status → Option Status → Nat → Bool → JStats → Except String JStats
  | [], _, _, pending, idx, _, st =>
    match pending with
    | some prev => judgeInvocation k ctlr lim snap new prev none idx st
    | none => .ok st
  | c :: cs, gets, subs, pending, idx, finished, st =>
    if finished then .error "call-after-done"
    else if c == "g1" || c == "g0" || c == "gn" then
      match pending with
      | some _ => .error "retry-after-noop"     -- setter said "nothing to do" but the loop went on
      | none =>
        if c == "gn" then judgeCalls k ctlr lim snap new cs gets subs none idx true st
        else if c == "g0" then judgeCalls k ctlr lim snap new cs gets subs none idx false st
        else match gets with
          | g :: gets' => judgeCalls k ctlr lim snap new cs gets' subs (some g) (idx + 1) false st
          | [] => .error "bad-trace"
    else if c == "u1" || c == "u0" then
      match pending, subs with
      | some prev, s :: subs' =>
        match judgeInvocation k ctlr lim snap new prev (some s) idx st with
        | .error e => .error e
        | .ok st' => judgeCalls k ctlr lim snap new cs gets subs' none idx (c == "u1") st'
      | none, _ => .error "update-without-fresh-get"
      | _, [] => .error "bad-trace"
    else .error "bad-trace"

def limitsFor (kind : String) (a : List Nat) : Option Limits :=
  match a with
  | [maxParents, maxAncestors, maxControllers, maxListeners, maxConds, maxMessage, maxReason, maxType] =>
    let n := if kind == "HTTPRoute" || kind == "GRPCRoute" || kind == "TLSRoute" then maxParents
             else if kind == "NGFPolicy" || kind == "BackendTLSPolicy" then maxAncestors
             else if kind == "SnippetsFilter" then maxControllers
             else maxListeners + 1
    some { maxEntries := n, minConds := 1, maxConds := maxConds, maxMessage := maxMessage,
           maxReason := maxReason, maxType := maxType }
  | _ => none

def judgeLine (lims : List Nat) (line : String) : String :=
  let fs := line.splitOn " "
  match field fs "kind", field fs "ctlr" >>= unesc, field fs "steps" >>= String.toNat?,
        field fs "new" >>= parseStatus, field fs "calls",
        field fs "gets" >>= parseStatuses, field fs "subs" >>= parseStatuses with
  | some kn, some ctlr, some steps, some new, some calls, some gets, some subs =>
    match kindOf kn, limitsFor kn lims with
    | some k, some lim =>
      let cl := if calls == "*" then [] else calls.splitOn ","
      let ngets := (cl.filter fun c => c.startsWith "g").length
      if ngets > steps then "fail too-many-attempts"
      else match judgeCalls k ctlr lim (field fs "snap" >>= parseStatus) new cl gets subs none 0 false {} with
        | .ok st =>
          -- "retry-safe": the loop may report "done" only after a successful write, a no-op or NotFound
          let done := field fs "done" == some "1"
          match done, cl.getLast? with
          | true, some "u0" => "fail done-after-failed-update"
          | true, some "g0" => "fail done-after-failed-get"
          | true, none => "fail done-without-get"
          | _, _ => s!"ok inv={st.invocations} upd={st.updates} dupown={st.dupOwnPrev} dupkept={st.dupOwnKept}"
        | .error e => "fail " ++ e
    | _, _ => "bad-op"
  | _, _, _, _, _, _, _ => "bad-op"

def dedupLine (line : String) : String :=
  match field (line.splitOn " ") "conds" >>= parseConds with
  | some cs => showConds (dedup cs)
  | none => "bad-op"

def attachLine (line : String) : String :=
  let fs := line.splitOn " "
  match field fs "ctlr" >>= unesc, field fs "max" >>= String.toNat?, field fs "cur" >>= parseStatus,
        field fs "targets" >>= String.toNat? with
  | some ctlr, some mx, some cur, some t =>
    let targets := (List.range t).map fun i => ({ ctlr := ctlr, ref := [toString i], conds := [] } : Entry)
    let n := (ngfAttach mx ctlr cur targets []).length
    s!"own={n} btpfull={if btpFull mx ctlr cur then 1 else 0}"
  | _, _, _, _ => "bad-op"

def driver (args : List String) : IO UInt32 := do
  let stdin ← IO.getStdin
  let stdout ← IO.getStdout
  match args with
  | ["model"] => forEachLine stdin fun l => stdout.putStrLn (modelLine l)
  | "judge" :: lims =>
    match lims.mapM String.toNat? with
    | some ns => forEachLine stdin fun l => stdout.putStrLn (judgeLine ns l)
    | none => IO.eprintln "judge: limits must be numbers"; return 2
  | ["dedup"] => forEachLine stdin fun l => stdout.putStrLn (dedupLine l)
  | ["attach"] => forEachLine stdin fun l => stdout.putStrLn (attachLine l)
  | _ => IO.eprintln "usage: C08 model | judge <8 limits> | dedup | attach"; return 2
  return 0

end NGF.StatusWrite

/-- executable entry point: `ngfdriver_C08 model|judge …|dedup|attach` -/
def main (args : List String) : IO UInt32 := NGF.StatusWrite.driver args
