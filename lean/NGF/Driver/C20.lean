import NGF.Model.Cli
import NGF.Model.CliCfg
import NGF.Model.CliJudge
import NGF.Model.Proto
/-
Driver entry for C20.  Arguments travel as lower-case hex of the bytes of the Go string.
  model line : `<op> <hex>[,<hex>…]`                 -> `ok` | `err:<class>` | (static) `validated` | `flag:<i>` | …
  judge line : `<op> <hex>[,<hex>…] <impl verdict>`  -> `ok` | `fail <signature suffix>`
  ops        : endpoint endpointopt ip resname nsname nsresname qname ctlr intflag collide static render
  static args: telemetryEndpoint, telemetryEndpointInsecure, then `name=value` per `--name=value`
  render args: endpoint value, resolver value, text of the mgmt.conf the real generator produced
-/
namespace NGF.CliDriver
open NGF.Cli NGF.CliSpec NGF.Proto

def hexVal (c : Char) : Option Nat :=
  if isDigit c then some (c.toNat - 48)
  else if 97 ≤ c.toNat && c.toNat ≤ 102 then some (c.toNat - 87) else none

def unhexL : List Char → Option Str
  | [] => some []
  | [_] => none
  | a :: b :: rest => do
    let x ← hexVal a
    let y ← hexVal b
    let r ← unhexL rest
    pure (Char.ofNat (x * 16 + y) :: r)

def unhex (s : String) : Option Str := unhexL s.toList

def unhexArgs (s : String) : Option (List Str) :=
  if s.isEmpty then some [] else (s.splitOn ",").mapM unhex

def showRes : Res → String
  | .ok => "ok" | .empty => "err:empty" | .split => "err:split" | .portnum => "err:portnum"
  | .portrange => "err:portrange" | .host => "err:host" | .format => "err:format"
  | .domain => "err:domain" | .regex => "err:regex" | .nsname => "err:nsname" | .resname => "err:resname"
  | .bracket => "err:bracket" | .unix => "err:unix"

def flagOfName (n : String) : Flag :=
  match n with
  | "gateway-ctlr-name" => .ctlrName | "gatewayclass" => .gatewayClass | "gateway" => .gateway
  | "config" => .config | "service" => .service | "leader-election-lock-name" => .leLockName
  | "usage-report-secret" => .urSecret | "usage-report-endpoint" => .urEndpoint
  | "usage-report-resolver" => .urResolver | "usage-report-client-ssl-secret" => .urClientSSL
  | "usage-report-ca-secret" => .urCA | "metrics-port" => .metricsPort | "health-port" => .healthPort
  | "nginx-plus" => .plus | _ => .other

def parseSetting (a : Str) : Flag × Str :=
  match splitFirst '=' a with
  | some (n, v) => (flagOfName (String.ofList n), v)
  | none => (flagOfName (String.ofList a), "true".toList)

def showCmd : CmdRes → String
  | .flagErr i => s!"flag:{i}" | .required => "required" | .collision => "collision"
  | .telemetryEndpoint => "telemetry-endpoint" | .telemetryBool => "telemetry-bool"
  | .plusSecret => "plus-secret" | .validated _ => "validated"

def parseInts (args : List Str) : Option (List Int) := args.mapM fun a => (String.ofList a).toInt?

def modelOp (op : String) (args : List Str) : String :=
  let a0 := args.headD []
  match op with
  | "endpoint" => showRes (validateEndpoint genCfg a0)
  | "endpointopt" => showRes (validateEndpointOptionalPort genCfg a0)
  | "ip" => showRes (validateIP a0)
  | "resname" => showRes (validateResourceName a0)
  | "nsname" => showRes (validateNamespaceName a0)
  | "nsresname" => showRes (parseNamespacedResourceName a0)
  | "qname" => showRes (validateQualifiedName a0)
  | "ctlr" => showRes (validateGatewayControllerName genCfg a0)
  | "intflag" => if (intFlagSet genCfg a0).isSome then "ok" else "err:int"
  | "collide" =>
    match parseInts args with
    | some ps => if noCollisions ps then "ok" else "err:collision"
    | none => "bad-op"
  | "static" =>
    match args with
    | te :: ti :: rest => showCmd (runStatic genCfg te ti (rest.map parseSetting))
    | _ => "bad-op"
  | "render" =>
    match args with
    | [ep, res, text] =>
      if renderMgmt ep res == text then "-" else "render-differs"
    | _ => "bad-op"
  | _ => "bad-op"

def modelLine (line : String) : String :=
  match line.splitOn " " with
  | [op, hex] => match unhexArgs hex with | some args => modelOp op args | none => "bad-op"
  | [op] => modelOp op []
  | _ => "bad-op"

/-! ### the judge: the property evaluated on the verdicts of the real code -/

def portOf (s : Str) : Option Int :=
  match splitLast ':' s with
  | some (_, p) => parseInt 64 p
  | none => none

def rejectSig (s : Str) (dflt : String) : String :=
  match portOf s with
  | some v => if v ≥ 32768 then "endpoint-port-ge-32768" else dflt
  | none => dflt

/-- class of an accepted optional-port value that NGINX's `ngx_parse_url` refuses -/
def addrClass (s : Str) : String :=
  match addrDefect s with
  | some c => c
  | none =>
    match splitHostPort s with
    | .ok (_, p) =>
      if (match parseInt 64 p with | some v => v < 1 || v > 65535 | none => true) then "port-out-of-range" else "other"
    | .error _ => "other"

def judgeStr (op : String) (s : Str) (ok : Bool) : Option String :=
  match op with
  | "endpoint" =>
    if docEndpoint s && !ok then some (rejectSig s "endpoint-rejects-documented")
    else if ok && !endpointWellFormed s then some "endpoint-accepts-malformed"
    else if ok && !safeBareArg s then some "endpoint-accepts-unsafe-chars"
    else none
  | "endpointopt" =>
    if docEndpointOpt s && !ok then some (rejectSig s "endpointopt-rejects-documented")
    else if ok && !safeBareArg s then some "endpointopt-accepts-unsafe-chars"
    -- a bare IPv6 address is judged on the rendered file (the generator may add the brackets)
    else if ok && !nginxAddrOk s && addrClass s != "bare-ipv6" then some ("nginx-addr-" ++ addrClass s)
    else none
  | "ip" =>
    if (isV4 s || (s.contains ':' && isV6 s)) && !ok then some "ip-rejects-documented"
    else if ok && !parseIP s then some "ip-accepts-non-ip" else none
  | "resname" =>
    if isDNS1123Subdomain s && !ok then some "resname-rejects-documented"
    else if ok && !(isDNS1123Subdomain s && safeBareArg s) then some "resname-accepts-illegal" else none
  | "nsname" =>
    if isDNS1123Label s && !ok then some "nsname-rejects-documented"
    else if ok && !isDNS1123Label s then some "nsname-accepts-illegal" else none
  | "nsresname" =>
    if docNamespacedName s && !ok then some "nsresname-rejects-documented"
    else if ok && !docNamespacedName s then some "nsresname-accepts-illegal" else none
  | "qname" =>
    if isQualifiedName s && !ok then some "qname-rejects-documented"
    else if ok && !isQualifiedName s then some "qname-accepts-illegal" else none
  | "ctlr" =>
    if docCtlrName s && !ok then some "ctlr-rejects-documented"
    else if ok && !docCtlrName s then some "ctlr-accepts-undocumented" else none
  | "intflag" =>
    if isDecimalIn 1024 65535 s && !ok then some "portflag-rejects-documented"
    else if ok && !(match parseInt 64 s with | some v => 1024 ≤ v && v ≤ 65535 | none => false) then
      some "portflag-accepts-out-of-range"
    else none
  | _ => some "bad-op"

/-- spec of one `--name=value`: documented (must be accepted) and safe (may be accepted) -/
def settingDoc (f : Flag) (v : Str) : Bool :=
  match f with
  | .ctlrName => docCtlrName v
  | .gateway => docNamespacedName v
  | .gatewayClass | .config | .service | .leLockName | .urSecret | .urClientSSL | .urCA => isDNS1123Subdomain v
  | .urEndpoint | .urResolver => docEndpointOpt v
  | .metricsPort | .healthPort => isDecimalIn 1024 65535 v
  | .plus | .other => (parseBool v).isSome

def settingSafe (f : Flag) (v : Str) : Bool :=
  match f with
  | .urEndpoint | .urResolver => safeBareArg v
  | .metricsPort | .healthPort => (match parseInt 64 v with | some p => 1024 ≤ p && p ≤ 65535 | none => false)
  | _ => settingDoc f v

def lastPort (f : Flag) (dflt : Int) (args : List (Flag × Str)) : Int :=
  args.foldl (fun acc (g, v) => if g == f then (parseInt 64 v).getD acc else acc) dflt

def lastStr (f : Flag) (dflt : Str) (args : List (Flag × Str)) : Str :=
  args.foldl (fun acc (g, v) => if g == f then v else acc) dflt

/-- the refused setting is an endpoint value whose port is ≥ 32768 -/
def portRegression (te : Str) (args : List (Flag × Str)) (verdict : String) : Bool :=
  match verdict.splitOn ":" with
  | ["flag", i] =>
    match i.toNat? >>= (args[·]?) with
    | some (f, v) => (f == .urEndpoint || f == .urResolver) && (portOf v).any (· ≥ 32768)
    | none => false
  | _ => verdict == "telemetry-endpoint" && (portOf te).any (· ≥ 32768)

def judgeStatic (te ti : Str) (args : List (Flag × Str)) (verdict : String) : Option String :=
  let mp := lastPort .metricsPort 9113 args
  let hp := lastPort .healthPort 8081 args
  let required := args.any (·.1 == .ctlrName) && args.any (·.1 == .gatewayClass)
  let plusOn := parseBool (lastStr .plus "false".toList args) == some true
  let secretSet := !(lastStr .urSecret "nplus-license".toList args).isEmpty
  if verdict == "validated" then
    if mp == hp then some "static-port-collision-not-rejected"
    else if !required then some "static-required-flag-missing-not-rejected"
    else if plusOn && !secretSet then some "static-plus-without-secret-not-rejected"
    else if !args.all (fun (f, v) => settingSafe f v) then some "static-accepts-unsafe-flag-value"
    else if !te.isEmpty && !endpointWellFormed te then some "static-accepts-malformed-telemetry-endpoint"
    else none
  else
    if required && mp != hp && args.all (fun (f, v) => settingDoc f v) && (te.isEmpty || docEndpoint te)
        && (parseBool ti).isSome && (!plusOn || secretSet) then
      -- the regression of the ParseInt bit size has its own signature
      some (if portRegression te args verdict then "endpoint-port-ge-32768" else "static-rejects-valid-command-line")
    else none

def judgeOp (op : String) (args : List Str) (verdict : String) : Option String :=
  match op with
  | "collide" =>
    match parseInts args with
    | none => some "bad-op"
    | some ps =>
      let dup := !noCollisions ps
      if dup && verdict == "ok" then some "collision-not-rejected"
      else if !dup && verdict != "ok" then some "collision-false-positive" else none
  | "static" =>
    match args with
    | te :: ti :: rest => judgeStatic te ti (rest.map parseSetting) verdict
    | _ => some "bad-op"
  | "render" =>
    match args with
    | [ep, res, text] =>
      -- which arguments were rendered: the values verbatim, or a bare IPv6 address between brackets
      let variants := [(ep, res), (ep, bracketV6 res), (bracketV6 ep, res), (bracketV6 ep, bracketV6 res)]
      match variants.find? (fun (e, r) => mgmtConfOK text e r) with
      | none => some "mgmt-conf-not-verbatim"
      | some (e, r) =>
        if !r.isEmpty && !nginxAddrOk r then some ("nginx-addr-" ++ addrClass res)
        else if !e.isEmpty && !nginxAddrOk e then some ("nginx-addr-" ++ addrClass ep)
        else none
    | _ => some "bad-op"
  | _ => judgeStr op (args.headD []) (verdict == "ok")

def judgeLine (line : String) : String :=
  match line.splitOn " " with
  | [op, hex, verdict] =>
    match unhexArgs hex with
    | some args => (match judgeOp op args verdict with | none => "ok" | some c => "fail " ++ c)
    | none => "bad-op"
  | _ => "bad-op"

def driver (args : List String) : IO UInt32 := do
  let stdin ← IO.getStdin
  let stdout ← IO.getStdout
  match args with
  | ["model"] => forEachLine stdin fun l => stdout.putStrLn (modelLine l)
  | ["judge"] => forEachLine stdin fun l => stdout.putStrLn (judgeLine l)
  | _ => IO.eprintln "usage: C20 model|judge"; return 2
  return 0

end NGF.CliDriver

/-- executable entry point: `ngfdriver_C20 model|judge` -/
def main (args : List String) : IO UInt32 := NGF.CliDriver.driver args
