import Lean.Data.Json
import NGF.Model.StatusPrep
import NGF.Model.StatusJudge
import NGF.Model.HandlerStatus
import NGF.Model.PolicyAttach
import NGF.Model.PipelineStatusTie
import NGF.Model.PipelineStatusTlsTie
import NGF.Model.Proto
/-
Driver entry for C07. Every input line is one JSON object written by harness/c07 (see run.go):
  {"ctl","cls","reloadErr","sum":{…graph summary…},"st":{…REAL statuses…},"conf":{…REAL configuration…},"objs":{…}}
  `model` : run `StatusPrep.prepare` on "sum" and compare with "st":  `ok` | `diff <what>;…`
  `judge` : evaluate the property (`StatusJudge.judge`) on objs + real conf + real statuses:
            `ok` | `skip <why>` | `fail <tag>;<tag>…`, optionally followed by ` ## <reason-disagreement>;…` (a statistic, not a verdict)
  `fragment` : lines that carry "flat" (the flat scenario of harness/c02.Flatten): `PipelineStatusTie.toFragmentV` gives the
            `Pipeline.Scenario`; `PipelineStatus.routeParentStatuses` / `gatewayStatus` / ignored Gateways against "st":
            `skip` | `out <why outside the fragment>` | `ok <stats>` | `diff <stats> ## <what>`
Undecodable input answers `bad-op <error>`.
-/
namespace NGF.C07
open Lean (Json)
open NGF.StatusPrep NGF.StatusJudge

def optField (j : Json) (k : String) : Option Json :=
  match j.getObjVal? k with
  | .ok v => if v.isNull then none else some v
  | .error _ => none

def reqStr (j : Json) (k : String) : Except String String := do (← j.getObjVal? k).getStr?
def reqNat (j : Json) (k : String) : Except String Nat := do (← j.getObjVal? k).getNat?
def reqInt (j : Json) (k : String) : Except String Int := do (← j.getObjVal? k).getInt?
def reqBool (j : Json) (k : String) : Except String Bool := do (← j.getObjVal? k).getBool?
def reqArr (j : Json) (k : String) : Except String (List Json) := do
  match j.getObjVal? k with
  | .ok v => if v.isNull then pure [] else return (← v.getArr?).toList
  | .error _ => pure []
def optStr (j : Json) (k : String) : Except String (Option String) :=
  match optField j k with
  | none => pure none
  | some v => do pure (some (← v.getStr?))
def optNat (j : Json) (k : String) : Except String (Option Nat) :=
  match optField j k with
  | none => pure none
  | some v => do pure (some (← v.getNat?))
def strMap (j : Json) (k : String) : Except String (List (String × String)) :=
  match optField j k with
  | none => pure []
  | some v => do
    let o ← v.getObj?
    o.toList.mapM fun (a, b) => do pure (a, ← b.getStr?)

/-! ### summary / statuses -/

def pCond (j : Json) : Except String Cond := do
  return ⟨← reqStr j "t", ← reqStr j "s", ← reqStr j "r"⟩
def pApiCond (j : Json) : Except String ApiCond := do
  return ⟨← reqStr j "t", ← reqStr j "s", ← reqStr j "r", ← reqInt j "g"⟩
def pConds (j : Json) (k : String) : Except String (List Cond) := do (← reqArr j k).mapM pCond
def pApiConds (j : Json) (k : String) : Except String (List ApiCond) := do (← reqArr j k).mapM pApiCond

def pParentRef (j : Json) : Except String ParentRef := do
  let att ← match optField j "att" with
    | none => pure none
    | some a => do pure (some (Attachment.mk (← reqBool a "attached") (← pCond (← a.getObjVal? "failed"))))
  return ⟨← reqStr j "gwNs", ← reqStr j "gwName", ← optStr j "section", att⟩

def pRoute (j : Json) : Except String Route := do
  return ⟨← reqStr j "kind", ← reqStr j "ns", ← reqStr j "name", ← reqInt j "gen", ← pConds j "conds",
    ← (← reqArr j "parentRefs").mapM pParentRef⟩

def pStrs (j : Json) (k : String) : Except String (List String) := do (← reqArr j k).mapM (·.getStr?)

def pListener (j : Json) : Except String Listener := do
  return ⟨← reqStr j "name", ← reqBool j "valid", ← pConds j "conds", ← pStrs j "routes", ← pStrs j "l4routes"⟩

def pGateway (j : Json) : Except String Gateway := do
  return ⟨← reqStr j "ns", ← reqStr j "name", ← reqInt j "gen", ← reqBool j "valid", ← pConds j "conds",
    ← (← reqArr j "listeners").mapM pListener⟩

def pAncRef (j : Json) : Except String AncRef := do
  return ⟨← reqStr j "group", ← reqStr j "kind", ← reqStr j "ns", ← reqStr j "name"⟩

def pPolicy (j : Json) : Except String Policy := do
  let ancs ← (← reqArr j "ancestors").mapM fun a => do
    pure (Ancestor.mk (← pAncRef (← a.getObjVal? "ref")) (← pConds a "conds"))
  return ⟨← reqStr j "kind", ← reqStr j "ns", ← reqStr j "name", ← reqInt j "gen", ← pConds j "conds", ancs⟩

def pBTP (j : Json) : Except String BTP := do
  return ⟨← reqStr j "ns", ← reqStr j "name", ← reqInt j "gen", ← reqStr j "gwNs", ← reqStr j "gwName",
    ← pConds j "conds", ← reqBool j "referenced", ← reqBool j "ignored"⟩

def pSummary (line : Json) : Except String Summary := do
  let s ← line.getObjVal? "sum"
  let gw ← match optField s "gateway" with
    | none => pure none
    | some g => do pure (some (← pGateway g))
  let ign ← (← reqArr s "ignored").mapM fun g => do
    pure (ObjRef.mk (← reqStr g "ns") (← reqStr g "name") (← reqInt g "gen"))
  -- handler stream: status preparation gets the result the REAL handler recorded (`prepErr`), not the truth
  let rerr ← match optField line "prepErr" with
    | some v => v.getBool?
    | none => reqBool line "reloadErr"
  return { controller := ← reqStr line "ctl", reloadErr := rerr, gateway := gw, ignored := ign,
           routes := ← (← reqArr s "routes").mapM pRoute,
           policies := ← (← reqArr s "policies").mapM pPolicy,
           btps := ← (← reqArr s "btps").mapM pBTP }

def pPrepared (line : Json) : Except String Prepared := do
  let s ← line.getObjVal? "st"
  let routes ← (← reqArr s "routes").mapM fun r => do
    let ps ← (← reqArr r "parents").mapM fun e => do
      pure (ParentStatus.mk (← reqStr e "ns") (← reqStr e "name") (← optStr e "section") (← reqStr e "ctl")
        (← pApiConds e "conds"))
    pure (RouteStatus.mk (← reqStr r "kind") (← reqStr r "ns") (← reqStr r "name") ps)
  let gws ← (← reqArr s "gateways").mapM fun g => do
    let ls ← (← reqArr g "listeners").mapM fun l => do
      pure (ListenerStatus.mk (← reqStr l "name") (← reqNat l "attached") (← pApiConds l "conds"))
    pure (GatewayStatus.mk (← reqStr g "ns") (← reqStr g "name") (← pApiConds g "conds") ls)
  let pols ← (← reqArr s "policies").mapM fun p => do
    let as ← (← reqArr p "ancestors").mapM fun a => do
      pure (AncStatus.mk (← pAncRef (← a.getObjVal? "ref")) (← reqStr a "ctl") (← pApiConds a "conds"))
    pure (PolicyStatus.mk (← reqStr p "kind") (← reqStr p "ns") (← reqStr p "name") as)
  return ⟨routes, gws, pols⟩

/-! ### correspondence: model(sum) against the real statuses -/

/-- `hist`: the real statuses have accumulated over a batch history; objects the current graph no longer writes keep
their old status (judged as staleness by the judge, not a model mismatch) -/
def compare (hist : Bool) (m real : Prepared) : List String :=
  let rk (r : RouteStatus) := routeKey r.kind r.ns r.name
  let gk (g : GatewayStatus) := g.ns ++ "/" ++ g.name
  let pk (p : PolicyStatus) := routeKey p.kind p.ns p.name
  -- every object the model writes: real status equal
  (m.routes.filterMap fun r =>
    match real.routes.find? (fun x => rk x = rk r) with
    | some x => if x.parents = r.parents then none else some ("route:" ++ rk r)
    | none => some ("route-object-missing:" ++ rk r)) ++
  (m.gateways.filterMap fun g =>
    match real.gateways.find? (fun x => gk x = gk g) with
    | some x => if x = g then none else some ("gateway:" ++ gk g)
    | none => some ("gateway-object-missing:" ++ gk g)) ++
  (m.policies.filterMap fun p =>
    match real.policies.find? (fun x => pk x = pk p) with
    | some x => if x.ancestors = p.ancestors || (hist && p.ancestors.isEmpty) then none else some ("policy:" ++ pk p)
    | none => if p.ancestors.isEmpty then none else some ("policy-object-missing:" ++ pk p)) ++
  -- every object the model does not write: real status untouched
  (if hist then [] else
  (real.routes.filterMap fun x =>
    if m.routes.any (fun r => rk r = rk x) || x.parents.isEmpty then none else some ("route-unexpected:" ++ rk x)) ++
  (real.gateways.filterMap fun x =>
    if m.gateways.any (fun g => gk g = gk x) || (x.conds.isEmpty && x.listeners.isEmpty) then none
    else some ("gateway-unexpected:" ++ gk x)) ++
  (real.policies.filterMap fun x =>
    if m.policies.any (fun p => pk p = pk x) || x.ancestors.isEmpty then none else some ("policy-unexpected:" ++ pk x)))

/-! ### handler model against the real eventHandlerImpl -/

open NGF.HandlerStatus in
/-- replay the batch history with `HandlerStatus.step`; every batch must reproduce the observed
latestReloadResult / version / "statuses were issued", and the final truth must be the harness's -/
def handlerDiffs (line : Json) : Except String (List String) :=
  match optField line "h" with
  | none => pure []
  | some h => do
    let plus ← reqBool h "plus"
    let bs ← reqArr h "batches"
    let truth ← reqBool line "reloadErr"
    let mut s := init
    let mut out : List String := []
    let mut idx := 0
    for b in bs do
      let ct ← reqStr b "ct"
      let ctv := if ct = "c" then ChangeType.clusterState else if ct = "e" then ChangeType.endpointsOnly else ChangeType.noChange
      let o : Outcome := ⟨← reqBool b "w", ← reqBool b "r", ← reqBool b "api"⟩
      -- an upsert/delete of the Service that fronts NGF in the batch: the out-of-batch Gateway status write
      let svc := match optField b "svc" with
        | some (.str x) => x != ""
        | _ => false
      let obsSvcSt := match optField b "obsSvcSt" with
        | some (.bool x) => x
        | _ => false
      let (s', svcWrite, st) := stepSvc plus s svc ctv o
      if svcWrite.isSome != obsSvcSt then
        out := out ++ [s!"handler:out-of-batch-status-write-issued:batch{idx}:model={svcWrite.isSome}"]
      if s'.latestErr != (← reqBool b "obsErr") then
        out := out ++ [s!"handler:latestReloadResult:batch{idx}:ct={ct}:model={s'.latestErr}"]
      if s'.version != (← reqNat b "obsVer") then
        out := out ++ [s!"handler:version:batch{idx}"]
      if st.isSome != (← reqBool b "obsSt") then
        out := out ++ [s!"handler:status-update-issued:batch{idx}"]
      s := s'
      idx := idx + 1
    if s.failed != truth then out := out ++ ["handler:environment-truth"]
    -- the result status preparation got for this line (for a `-svc` line: the one the out-of-batch write used) is the
    -- remembered result of the model after the history so far (`outOfBatchWrite`)
    match optField line "prepErr" with
    | some (.bool pe) => if outOfBatchWrite s != pe then out := out ++ [s!"handler:remembered-result:model={outOfBatchWrite s}"]
    | _ => pure ()
    pure out

/-- `attachPolicyToService` against the real graph: an UpstreamSettingsPolicy whose targetRefs name `svcRefd` referenced Services
has the ancestors `PolicyAttach.attachServices` gives (one entry for the winning Gateway, TargetNotFound when it is invalid) -/
def policyAttachDiffs (line : Json) : Except String (List String) := do
  let s ← line.getObjVal? "sum"
  match optField s "gateway" with
  | none => pure []
  | some g =>
    let gw : AncRef := ⟨gatewayGroup, "Gateway", ← reqStr g "ns", ← reqStr g "name"⟩
    let valid ← reqBool g "valid"
    let pols ← reqArr s "policies"
    let ds ← pols.filterMapM fun p => do
      if (← reqStr p "kind") != "UpstreamSettingsPolicy" then pure none else
      let n := match optField p "svcRefd" with
        | some v => (v.getNat?.toOption).getD 0
        | none => 0
      let real := (← pPolicy p).ancestors
      let model := NGF.PolicyAttach.attachServices gw valid n []
      if real == model then pure none
      else pure (some s!"policy-ancestors:{← reqStr p "ns"}/{← reqStr p "name"}:svcRefd={n}:real={real.length}:model={model.length}")
    pure ds

def modelLine (line : String) : String :=
  match Json.parse line with
  | .error e => "bad-op " ++ e
  | .ok j =>
    match pSummary j, pPrepared j with
    | .ok s, .ok real =>
      match handlerDiffs j with
      | .error e => "bad-op h: " ++ e
      | .ok hd =>
        let pd := match policyAttachDiffs j with
          | .ok x => x
          | .error e => ["policy-ancestors:undecodable:" ++ e]
        let d := compare (optField j "h").isSome (prepare s) real ++ (if s.wf then [] else ["wf:summary-of-the-real-graph-violates-Summary.wf"]) ++ hd ++ pd
        if d.isEmpty then "ok" else "diff " ++ ";".intercalate d
    | .error e, _ => "bad-op sum: " ++ e
    | _, .error e => "bad-op st: " ++ e

/-! ### judge input -/

def pOListener (j : Json) : Except String OListener := do
  let kinds ← match optField j "kinds" with
    | none => pure none
    | some v => do
      let ks ← (← v.getArr?).toList.mapM fun k => do pure (← reqStr k "group", ← reqStr k "kind")
      pure (some ks)
  return ⟨← reqStr j "name", ← reqNat j "port", ← reqStr j "protocol", ← reqStr j "hostname", ← reqStr j "from",
    ← strMap j "selector", ← reqNat j "selExprs", kinds⟩

def pOGateway (j : Json) : Except String OGateway := do
  return ⟨← reqStr j "ns", ← reqStr j "name", ← reqInt j "gen", ← reqInt j "age", ← reqStr j "class",
    ← (← reqArr j "listeners").mapM pOListener⟩

def pOParentRef (j : Json) : Except String OParentRef := do
  return ⟨← optStr j "group", ← optStr j "kind", ← optStr j "ns", ← reqStr j "name", ← optStr j "section",
    ← optNat j "port"⟩

def pORoute (j : Json) : Except String ORoute := do
  return ⟨← reqStr j "kind", ← reqStr j "ns", ← reqStr j "name", ← reqInt j "gen", ← reqInt j "age",
    ← (← reqArr j "parentRefs").mapM pOParentRef, ← pStrs j "hostnames", ← reqStr j "upstream", ← reqBool j "l4ok"⟩

def pObjs (line : Json) : Except String Objs := do
  let o ← line.getObjVal? "objs"
  let classes ← (← reqArr o "classes").mapM fun c => do pure (OClass.mk (← reqStr c "name") (← reqStr c "controller"))
  let nss ← (← reqArr o "namespaces").mapM fun n => do pure (ONamespace.mk (← reqStr n "name") (← strMap n "labels"))
  let pols ← (← reqArr o "policies").mapM fun p => do
    let ts ← (← reqArr p "targets").mapM fun t => do
      pure (OTarget.mk (← reqStr t "group") (← reqStr t "kind") (← reqStr t "name"))
    pure (OPolicy.mk (← reqStr p "kind") (← reqStr p "ns") (← reqStr p "name") (← reqInt p "gen") ts)
  return ⟨classes, ← (← reqArr o "gateways").mapM pOGateway, ← (← reqArr o "routes").mapM pORoute, nss, pols⟩

def pServer (j : Json) : Except String Server := do
  let rules ← (← reqArr j "rules").mapM fun r => do
    pure (RuleSrc.mk (← reqStr r "ns") (← reqStr r "name") (← reqNat r "idx") (← reqBool r "bad") (← reqBool r "inv"))
  return ⟨← reqNat j "port", ← reqStr j "host", ← reqBool j "default", rules⟩

def pConf (line : Json) : Except String (Option Conf) :=
  match optField line "conf" with
  | none => pure none
  | some c => do
    let tls ← (← reqArr c "tls").mapM fun s => do
      pure (L4Server.mk (← reqNat s "port") (← reqStr s "host") (← reqBool s "default") (← reqStr s "up"))
    pure (some ⟨← (← reqArr c "http").mapM pServer, ← (← reqArr c "ssl").mapM pServer, tls⟩)

/-- facts of the REAL graph the judge may use -/
def pFacts (line : Json) : Except String GraphFacts := do
  let s ← line.getObjVal? "sum"
  let routeRefs ← (← reqArr s "routes").mapM fun r => do
    pure (routeKey (← reqStr r "kind") (← reqStr r "ns") (← reqStr r "name"), ← reqBool r "badRefs", ← reqBool r "badFilter")
  let (att, lr) ← match optField s "gateway" with
    | none => pure ([], [])
    | some g => do
      let ls ← reqArr g "listeners"
      let att ← ls.filterMapM fun l => do
        if ← reqBool l "attachable" then pure (some (← reqStr l "name")) else pure none
      let lr ← ls.mapM fun l => do pure (← reqStr l "name", (← pStrs l "routes") ++ (← pStrs l "l4routes"))
      pure (att, lr)
  return ⟨routeRefs, att, lr⟩

def pInput (j : Json) : Except String Input := do
  let fk ← match optField j "failKind" with
    | some v => v.getStr?
    | none => pure ""
  return { ctl := ← reqStr j "ctl", cls := ← reqStr j "cls", reloadErr := ← reqBool j "reloadErr", failKind := fk,
           objs := ← pObjs j, conf := ← pConf j, st := ← pPrepared j, facts := ← pFacts j,
           fresh := ← (← reqArr j "fresh").mapM fun g => do
             let ls ← (← reqArr g "listeners").mapM fun l => do
               pure (ListenerStatus.mk (← reqStr l "name") (← reqNat l "attached") (← pApiConds l "conds"))
             pure (GatewayStatus.mk (← reqStr g "ns") (← reqStr g "name") (← pApiConds g "conds") ls) }

def judgeLine (line : String) : String :=
  match Json.parse line with
  | .error e => "bad-op " ++ e
  | .ok j =>
    match optField j "panic" with
    | some p => "fail panic:" ++ (match p.getStr? with | .ok s => s | .error _ => "?")
    | none =>
      match pInput j with
      | .error e => "bad-op " ++ e
      | .ok i =>
        match skipReason i with
        | some why => "skip " ++ why
        | none =>
          let f := judge i
          -- statistic appended after " ## " (never part of the verdict): Accepted=False reasons that differ from the
          -- Gateway API reading of the objects
          let rs := reasonDisagreements i
          (if f.isEmpty then "ok" else "fail " ++ ";".intercalate f) ++
            (if rs.isEmpty then "" else " ## " ++ ";".intercalate rs)

/-! ### fragment stream: `PipelineStatus` (statuses from the Pipeline scenario) against the real statuses -/

namespace Flat
open NGF.Spec.GatewayAPI

def str (j : Json) (k : String) : Except String String := do (← j.getObjVal? k).getStr?
def nat (j : Json) (k : String) : Except String Nat := do (← j.getObjVal? k).getNat?
def int (j : Json) (k : String) : Except String Int := do (← j.getObjVal? k).getInt?
def bool (j : Json) (k : String) : Except String Bool := do (← j.getObjVal? k).getBool?
def arr (j : Json) (k : String) : Except String (List Json) := do
  match j.getObjVal? k with
  | .ok v => if v.isNull then pure [] else return (← v.getArr?).toList
  | .error _ => pure []
def strs (j : Json) (k : String) : Except String (List String) := do (← arr j k).mapM (·.getStr?)
def strMap (j : Json) (k : String) : Except String (List (String × String)) := do
  match j.getObjVal? k with
  | .ok (.obj m) => m.toList.mapM fun (a, b) => do pure (a, ← b.getStr?)
  | _ => pure []

def dKV (j : Json) : Except String KV := do pure ⟨← str j "type", ← str j "name", ← str j "value"⟩
def dHeader (j : Json) : Except String Header := do pure ⟨← str j "name", ← str j "value"⟩

def dMatch (j : Json) : Except String Match := do
  pure { ptype := ← str j "ptype", pvalue := ← str j "pvalue", method := ← str j "method",
         headers := ← (← arr j "headers").mapM dKV, query := ← (← arr j "query").mapM dKV,
         hasGm := ← bool j "hasGm", gmType := ← str j "gmType", hasService := ← bool j "hasService",
         service := ← str j "service", hasGMethod := ← bool j "hasGMethod", gmethod := ← str j "gmethod" }

def dFilter (j : Json) : Except String Filter := do
  pure { type := ← str j "type", present := ← bool j "present", scheme := ← str j "scheme", hostname := ← str j "hostname",
         hasPort := ← bool j "hasPort", port := ← nat j "port", code := ← nat j "code", pathType := ← str j "pathType",
         pathValue := ← str j "pathValue", set := ← (← arr j "set").mapM dHeader, add := ← (← arr j "add").mapM dHeader,
         remove := ← strs j "remove" }

def dBackend (j : Json) : Except String Backend := do
  pure { group := ← str j "group", kind := ← str j "kind", hasNs := ← bool j "hasNs", ns := ← str j "ns", name := ← str j "name",
         hasPort := ← bool j "hasPort", port := (← int j "port").toNat, weight := ← int j "weight", nfilters := ← nat j "nfilters" }

def dRule (j : Json) : Except String Rule := do
  pure { matches_ := ← (← arr j "matches").mapM dMatch, filters := ← (← arr j "filters").mapM dFilter,
         backends := ← (← arr j "backends").mapM dBackend }

def dParent (j : Json) : Except String NGF.Spec.GatewayAPI.ParentRef := do
  pure { group := ← str j "group", kind := ← str j "kind", hasNs := ← bool j "hasNs", ns := ← str j "ns", name := ← str j "name",
         hasSection := ← bool j "hasSection", sectionName := ← str j "section", hasPort := ← bool j "hasPort" }

def dRoute (j : Json) : Except String NGF.Spec.GatewayAPI.Route := do
  pure { kind := ← str j "kind", ns := ← str j "ns", name := ← str j "name", age := ← int j "age",
         parents := ← (← arr j "parents").mapM dParent, hostnames := ← strs j "hostnames", rules := ← (← arr j "rules").mapM dRule }

def dListener (j : Json) : Except String NGF.Spec.GatewayAPI.Listener := do
  pure { name := ← str j "name", port := (← int j "port").toNat, proto := ← str j "proto", hasHost := ← bool j "hasHost",
         host := ← str j "host", hasTls := ← bool j "hasTls", tlsMode := ← str j "tlsMode", tlsOpts := ← nat j "tlsOpts",
         certs := ← (← arr j "certs").mapM (fun c => do
           pure ({ group := ← str c "group", kind := ← str c "kind", hasNs := ← bool c "hasNs", ns := ← str c "ns", name := ← str c "name" } : CertRef)),
         nsFrom := ← str j "from", hasSel := ← bool j "hasSel", selMatch := ← strMap j "selMatch", selExprs := ← nat j "selExprs",
         hasKinds := ← bool j "hasKinds",
         kinds := ← (← arr j "kinds").mapM (fun c => do pure (⟨← str c "group", ← str c "kind"⟩ : KindRef)) }

/-- the flat scenario written by `harness/c02.Flatten` (same decoding as Driver/C02) -/
def dScenario (j : Json) : Except String NGF.Spec.GatewayAPI.Scenario := do
  pure { cls := ← str j "class", ctlr := ← str j "ctlr",
         protectedPorts := ← (← arr j "protected").mapM (·.getNat?),
         gcs := ← (← arr j "gcs").mapM (fun c => do pure (⟨← str c "name", ← str c "ctlr", ← int c "age", ← bool c "params"⟩ : GatewayClass)),
         gws := ← (← arr j "gws").mapM (fun g => do
           pure ({ ns := ← str g "ns", name := ← str g "name", cls := ← str g "class", age := ← int g "age",
                   addresses := ← nat g "addresses", listeners := ← (← arr g "listeners").mapM dListener } : NGF.Spec.GatewayAPI.Gateway)),
         nss := ← (← arr j "nss").mapM (fun n => do pure (⟨← str n "name", ← strMap n "labels"⟩ : Namespace)),
         routes := ← (← arr j "routes").mapM dRoute,
         svcs := ← (← arr j "svcs").mapM (fun v => do
           pure ({ ns := ← str v "ns", name := ← str v "name",
                   ports := ← (← arr v "ports").mapM (fun p => do pure (⟨(← int p "port").toNat, ← bool p "ready"⟩ : SvcPort)) } : Svc)),
         grants := ← (← arr j "grants").mapM (fun g => do
           pure ({ ns := ← str g "ns",
                   «from» := ← (← arr g "from").mapM (fun f => do pure (⟨← str f "group", ← str f "kind", ← str f "ns"⟩ : GrantFrom)),
                   to := ← (← arr g "to").mapM (fun t => do pure (⟨← str t "group", ← str t "kind", ← bool t "hasName", ← str t "name"⟩ : GrantTo)) } : Grant)),
         secrets := ← (← arr j "secrets").mapM (fun x => do pure (⟨← str x "ns", ← str x "name", ← bool x "ok"⟩ : Secret)) }
end Flat

/-- `metadata.generation` of the objects of a case (from "objs") -/
def pGens (line : Json) : Except String (String → String → String → Int) := do
  let o ← line.getObjVal? "objs"
  let gws ← (← reqArr o "gateways").mapM fun g => do pure (("Gateway", ← reqStr g "ns", ← reqStr g "name"), ← reqInt g "gen")
  let rs ← (← reqArr o "routes").mapM fun r => do pure ((← reqStr r "kind", ← reqStr r "ns", ← reqStr r "name"), ← reqInt r "gen")
  let tab := gws ++ rs
  pure fun k ns n => (tab.lookup (k, ns, n)).getD 0

/-- `fragment`: `skip` (no flat scenario) | `out <why>` (outside the fragment) | `ok <stats>` | `diff <stats> ## <what>` -/
def fragmentLine (line : String) : String :=
  match Json.parse line with
  | .error e => "bad-op " ++ e
  | .ok j =>
    match optField j "flat" with
    | none => "skip"
    | some fj =>
      if (optField j "panic").isSome then "skip" else
      match Flat.dScenario fj, pPrepared j, pGens j, reqBool j "reloadErr" with
      | .ok flat, .ok real, .ok gens, .ok rerr =>
        match NGF.PipelineStatusTie.toFragmentV flat with
        | .error why => "out " ++ why
        | .ok fs =>
          if !NGF.PipelineStatus.statusOK fs then "out statusOK" else
          let same := match NGF.PipelineTie.toFragment flat with
            | .ok fs0 => if toString (repr fs0) == toString (repr fs) then "same" else "CHANGED"
            | .error _ => "ext"
          let rep := NGF.PipelineStatusTie.compareFragment fs rerr gens real
          let rep := if same == "CHANGED" then { rep with diffs := rep.diffs ++ ["toFragmentV differs from toFragment on a scenario toFragment accepts"] } else rep
          rep.render ++ s!" inFragment={NGF.Pipeline.inFragment fs} view={same}"
      | .error e, _, _, _ => "bad-op flat: " ++ e
      | _, .error e, _, _ => "bad-op st: " ++ e
      | _, _, .error e, _ => "bad-op objs: " ++ e
      | _, _, _, .error e => "bad-op reloadErr: " ++ e

/-- `tls`: lines with "flat" and "secrets": `PipelineTlsTie.toFragmentT` gives the `ScenarioT`; `PipelineStatusTls` against "st":
`skip` | `out <why>` | `ok <stats>` | `diff <stats> ## <what>` -/
def tlsLine (line : String) : String :=
  match Json.parse line with
  | .error e => "bad-op " ++ e
  | .ok j =>
    match optField j "flat", optField j "secrets" with
    | some fj, some _ =>
      if (optField j "panic").isSome then "skip" else
      let secrets : Except String (List NGF.Tls.SecretObj) := do
        (← reqArr j "secrets").mapM fun x => do
          pure { ns := (← reqStr x "ns").toList, name := (← reqStr x "name").toList, isTLS := (← reqStr x "type") == "kubernetes.io/tls",
                 pairOK := ← reqBool x "pairOK", cert := (← reqStr x "cert").toList, key := (← reqStr x "key").toList }
      match Flat.dScenario fj, secrets, pPrepared j, pGens j, reqBool j "reloadErr" with
      | .ok flat, .ok secs, .ok real, .ok gens, .ok rerr =>
        match NGF.PipelineTlsTie.toFragmentT flat secs with
        | .error why => "out " ++ why
        | .ok fs =>
          if !NGF.PipelineTls.inFragmentT fs then "out inFragmentT" else
          if !NGF.PipelineStatus.statusOK (NGF.PipelineTls.allPart fs) then "out statusOK" else
          (NGF.PipelineStatusTlsTie.compareT fs rerr gens real).render
      | .error e, _, _, _, _ => "bad-op flat: " ++ e
      | _, .error e, _, _, _ => "bad-op secrets: " ++ e
      | _, _, .error e, _, _ => "bad-op st: " ++ e
      | _, _, _, .error e, _ => "bad-op objs: " ++ e
      | _, _, _, _, .error e => "bad-op reloadErr: " ++ e
    | _, _ => "skip"

def driver (args : List String) : IO UInt32 := do
  let stdin ← IO.getStdin
  let stdout ← IO.getStdout
  match args with
  | ["model"] => NGF.Proto.forEachLine stdin fun l => stdout.putStrLn (modelLine l)
  | ["judge"] => NGF.Proto.forEachLine stdin fun l => stdout.putStrLn (judgeLine l)
  | ["fragment"] => NGF.Proto.forEachLine stdin fun l => stdout.putStrLn (fragmentLine l)
  | ["tls"] => NGF.Proto.forEachLine stdin fun l => stdout.putStrLn (tlsLine l)
  | _ => IO.eprintln "usage: C07 model|judge|fragment|tls"; return 2
  return 0

end NGF.C07

/-- executable entry point: `ngfdriver_C07 model|judge` -/
def main (args : List String) : IO UInt32 := NGF.C07.driver args
