import Lean.Data.Json
import NGF.Model.NginxLex
import NGF.Model.InjJudge
import NGF.Model.InjGuards
import NGF.Model.InjCompose
import NGF.Model.Proto
import NGF.Model.PrintTie
/-
Driver entry for C04. Tab-separated fields; strings escaped as \\ \t \n \r.

mode `judge` (stateful, one answer per line):
  F <id> <content>                     register a file content                       -> `f`
  B <label> <n> (<path> <id>)*         baseline = files generated for a benign value -> `base <ntokens>` | `basefail …`
  Q <case> <n> (<path> <id>)*          files generated for the empty string in a *string field -> `ok empty-same` | `fail empty-argument …`
  P <case> <n> (<path> <id>)*          files generated for the hostile value          -> `ok absent` | `ok inside <k>` |
                                                                                        `fail <clause> <path> <pos> <detail>`
  L <label> <n> (<path> <id>)*         files of a run, remembered (P remembers its files too)            -> `l`
  R <case> <n> (<path> <id>)*          files of a SECOND run of the same objects in the same process, against the
                                       remembered ones: canonical token streams / JSON must be equal -> `same` | `differs <path> <pos> <detail>`
mode `regex`:   <validator> <string>   -> `1` | `0` | `bad-op`   (Lean validator models over the generated regexes)
mode `lex`:     <content>              -> token stream, for debugging
mode `print`:   JSON lines of harness/c04/print.go {"flat","http","matches",…} -> JSON: the guards of Model/PrintGuards on the
                scenario, lex(real http.conf) against lex(printDirs(render(genR s))) (Model/PrintTie.tie)
-/
namespace NGF.Inj
open NGF.Nginx NGF.Proto

def unescField (s : String) : String :=
  let rec go : List Char → List Char → List Char
    | [], acc => acc.reverse
    | '\\' :: 'n' :: r, acc => go r ('\n' :: acc)
    | '\\' :: 't' :: r, acc => go r ('\t' :: acc)
    | '\\' :: 'r' :: r, acc => go r ('\r' :: acc)
    | '\\' :: '\\' :: r, acc => go r ('\\' :: acc)
    | c :: r, acc => go r (c :: acc)
  String.ofList (go s.toList [])

inductive Parsed
  | conf (r : Except LexErr (List Tok))
  | json (r : Except String Lean.Json)
  | other

structure Content where
  text : String
  marked : Bool
  parsed : Parsed

def parseContent (path text : String) : Parsed :=
  if path.endsWith ".conf" then .conf (lex text.toList)
  else if path.endsWith ".json" then .json (Lean.Json.parse text)
  else .other

/-- JSON shapes equal up to strings of the probe that carry the marker. matches.json is an object keyed by
`<server>_<pathRuleIndex>`; keys and internal redirect paths are compared modulo their digits and the entries
as a multiset (the indices follow the sorted position of the path rule). -/
partial def jsonSame : Lean.Json → Lean.Json → Bool
  | .str a, .str b =>
    a == b || hasMarker b.toList ||
      (isInternalLoc a.toList && normDigits a.toList == normDigits b.toList)
  | .arr a, .arr b => a.size == b.size && (a.zip b).all (fun (x, y) => jsonSame x y)
  | .obj a, .obj b =>
    let ka := a.toList
    let kb := b.toList
    let keyOK := fun (x y : String) => x == y || hasMarker y.toList || normDigits x.toList == normDigits y.toList
    let rec matchAll : List (String × Lean.Json) → List (String × Lean.Json) → Bool
      | [], rest => rest.isEmpty
      | x :: xs, ys =>
        match ys.findIdx? (fun y => keyOK x.1 y.1 && jsonSame x.2 y.2) with
        | some i => matchAll xs (ys.eraseIdx i)
        | none => false
    ka.length == kb.length && matchAll ka kb
  | a, b => a == b

structure St where
  contents : Array (Option (String × Bool))            -- id ↦ (text, marked)
  lexed : Array (Option (Except LexErr (List Tok)))     -- id ↦ tokens (for .conf, filled on demand)
  base : List (String × Nat)
  /-- the files of the last L / P line (for the repeat comparison R) -/
  last : List (String × Nat) := []

def getText (st : St) (id : Nat) : Option (String × Bool) := (st.contents[id]?).join

def getToks (ref : IO.Ref St) (id : Nat) : IO (Except LexErr (List Tok)) := do
  let st ← ref.get
  match (st.lexed[id]?).join with
  | some r => return r
  | none =>
    let txt := (getText st id).map (·.1) |>.getD ""
    let r := lex txt.toList
    let lexed := if id < st.lexed.size then st.lexed.set! id (some r)
      else (st.lexed ++ Array.replicate (id + 1 - st.lexed.size) none).set! id (some r)
    ref.set { st with lexed := lexed }
    return r

def parseFiles : List String → Option (List (String × Nat))
  | [] => some []
  | p :: i :: rest => do
    let n ← i.toNat?
    let r ← parseFiles rest
    pure ((unescField p, n) :: r)
  | _ => none

def errStr : LexErr → String
  | .unexpected c => s!"unexpected {repr c}"
  | .unexpectedEOF => "unexpected end of file"

def oneLine (s : String) : String :=
  String.ofList (s.toList.map (fun c => if c == '\n' || c == '\t' || c == '\r' then ' ' else c))

def judgeCase (ref : IO.Ref St) (relaxed : Bool) (files : List (String × Nat)) : IO String := do
  let st ← ref.get
  -- the value does not appear at all (rejected or unused): nothing of it can have been injected
  let present := files.any (fun (p, id) => hasMarker p.toList || ((getText st id).map (·.2) |>.getD false))
  if !present && !relaxed then return "ok absent"
  -- the set of files must be the same up to marker-bearing paths
  let keyed := fun (fs : List (String × Nat)) =>
    (fs.map (fun f => ((if hasMarker f.1.toList then "<marked>" else f.1), f))).mergeSort (fun a b => a.1 ≤ b.1)
  let baseSorted := (keyed st.base).map (·.2)
  let files := (keyed files).map (·.2)
  let bp := pathSkeleton (baseSorted.map (·.1))
  let pp := pathSkeleton (files.map (·.1))
  if bp != pp then
    return s!"fail files - 0 baseline has {bp.length} files, probe {pp.length}: {oneLine (toString pp)}"
  let mut inside := 0
  let mut anyMarker := false
  for ((bpath, bid), (ppath, pid)) in baseSorted.zip files do
    if hasMarker ppath.toList then
      anyMarker := true
      inside := inside + 1
    let pmarked := (getText st pid).map (·.2) |>.getD false
    if pmarked then anyMarker := true
    if bid == pid then
      -- identical content: the marker (if any) is the baseline's own
      continue
    if ppath.endsWith ".conf" then
      let tb ← getToks ref bid
      let tp ← getToks ref pid
      match tb, tp with
      | .error e, _ => return s!"fail baseline-lex-error {bpath} 0 {errStr e}"
      | .ok _, .error e => return s!"fail lex-error {ppath} 0 {errStr e}"
      | .ok b, .ok p =>
        match canon b, canon p with
        | none, _ => return s!"fail baseline-lex-error {bpath} 0 blocks do not nest"
        | some _, none => return s!"fail nesting {ppath} 0 blocks do not nest"
        | some b, some p =>
        match (if relaxed then judgeEmpty b p else judgeToks b p) with
        | .ok k => inside := inside + k
        | .fail clause pos detail => return s!"fail {clause} {ppath} {pos} {oneLine detail}"
    else if ppath.endsWith ".json" then
      let tb := (getText st bid).map (·.1) |>.getD ""
      let tp := (getText st pid).map (·.1) |>.getD ""
      match Lean.Json.parse tb, Lean.Json.parse tp with
      | .ok b, .ok p =>
        if jsonSame b p || (relaxed && jsonSame p b) then
          if pmarked then inside := inside + 1
        else
          return s!"fail json {ppath} 0 structure differs"
      | _, _ => return s!"fail json {ppath} 0 does not parse"
    else
      -- certificate bundles, secrets: content is the value's own file
      if pmarked then inside := inside + 1
  if relaxed then return "ok empty-same"
  if anyMarker then return s!"ok inside {inside}" else return "ok absent"

/-- Statefulness: the files of a second run of the SAME objects in the same process against those of the first run. No
tolerance for marker-bearing words: the canonical token streams (order normalisation only: NGF iterates over Go maps)
must be equal, the JSON files structurally equal, the file sets equal. -/
def repeatCase (ref : IO.Ref St) (files : List (String × Nat)) : IO String := do
  let st ← ref.get
  let sortF := fun (fs : List (String × Nat)) => fs.mergeSort (fun a b => a.1 ≤ b.1)
  let a := sortF st.last
  let b := sortF files
  if a.map (·.1) != b.map (·.1) then
    return s!"differs files 0 first run {a.length} files, second run {b.length}"
  for ((apath, aid), (_, bid)) in a.zip b do
    if aid == bid then continue
    if apath.endsWith ".conf" then
      let ta ← getToks ref aid
      let tb ← getToks ref bid
      match ta, tb with
      | .ok x, .ok y =>
        match canon x, canon y with
        | some cx, some cy =>
          if cx != cy then
            let i := ((cx.zip cy).findIdx? (fun p => p.1 != p.2)).getD (min cx.length cy.length)
            let show_ := fun (l : List Tok) => " ".intercalate (((l.drop (i - 3)).take 8).map tokStr)
            return s!"differs {apath} {i} first run: … {oneLine (show_ cx)} / second run: … {oneLine (show_ cy)}"
        | none, none => pure ()
        | _, _ => return s!"differs {apath} 0 only one of the two runs nests"
      | .error _, .error _ => pure ()
      | _, _ => return s!"differs {apath} 0 only one of the two runs is tokenisable"
    else if apath.endsWith ".json" then
      let x := (getText st aid).map (·.1) |>.getD ""
      let y := (getText st bid).map (·.1) |>.getD ""
      match Lean.Json.parse x, Lean.Json.parse y with
      | .ok jx, .ok jy => if !(jsonSame jx jy && jsonSame jy jx) then return s!"differs {apath} 0 structure differs"
      | _, _ => if x != y then return s!"differs {apath} 0 text differs"
    else
      return s!"differs {apath} 0 content differs"
  return "same"

def judgeLine (ref : IO.Ref St) (line : String) : IO String := do
  let fs := line.splitOn "\t"
  match fs with
  | "F" :: id :: content :: [] =>
    match id.toNat? with
    | none => return "bad-op"
    | some n =>
      let txt := unescField content
      let st ← ref.get
      let contents := if n < st.contents.size then st.contents
        else st.contents ++ Array.replicate (n + 1 - st.contents.size) none
      ref.set { st with contents := contents.set! n (some (txt, hasMarker txt.toList)) }
      return "f"
  | "B" :: _label :: _n :: rest =>
    match parseFiles rest with
    | none => return "bad-op"
    | some files =>
      ref.modify (fun st => { st with base := files })
      let mut ntok := 0
      for (path, id) in files do
        if path.endsWith ".conf" then
          match ← getToks ref id with
          | .ok ts => ntok := ntok + ts.length
          | .error e => return s!"basefail {path} {errStr e}"
      return s!"base {ntok}"
  | "P" :: _case :: _n :: rest =>
    match parseFiles rest with
    | none => return "bad-op"
    | some files =>
      ref.modify (fun st => { st with last := files })
      judgeCase ref false files
  | "L" :: _label :: _n :: rest =>
    match parseFiles rest with
    | none => return "bad-op"
    | some files =>
      ref.modify (fun st => { st with last := files })
      return "l"
  | "R" :: _case :: _n :: rest =>
    match parseFiles rest with
    | none => return "bad-op"
    | some files => repeatCase ref files
  | "Q" :: _case :: _n :: rest =>
    match parseFiles rest with
    | none => return "bad-op"
    | some files => judgeCase ref true files
  | _ => return "bad-op"

def escField (s : String) : String :=
  String.ofList (s.toList.flatMap (fun c =>
    if c == '\\' then ['\\', '\\'] else if c == '\n' then ['\\', 'n'] else if c == '\t' then ['\\', 't']
    else if c == '\r' then ['\\', 'r'] else [c]))

def optField (s : String) : Option (List Char) := if s == "~" then none else some (unescField s).toList

def regexLine (line : String) : String :=
  match line.splitOn "\t" with
  | ["compose:mainRewrite", typ, repl, path] =>
    let r := (unescField repl).toList
    let m := if typ == "ReplaceFullPath" then some (PathMod.full r) else if typ == "ReplacePrefixMatch" then some (PathMod.pfx r) else none
    match m with
    | some m => escField (String.ofList (mainRewrite m (unescField path).toList))
    | none => "bad-op"
  | ["compose:rewriteFilter", typ, repl, path] =>
    let r := (unescField repl).toList
    let m := if typ == "ReplaceFullPath" then some (PathMod.full r) else if typ == "ReplacePrefixMatch" then some (PathMod.pfx r) else none
    match m with
    | some m => escField (String.ofList (rewriteFilterMain m (unescField path).toList))
    | none => "bad-op"
  | ["compose:redirectBody", scheme, host, port, hasPath, lport] =>
    match (if port == "~" then some none else port.toNat?.map some), lport.toNat? with
    | some p, some lp =>
      escField (String.ofList (redirectBody (optField scheme) (optField host) p (hasPath == "1") lp))
    | _, _ => "bad-op"
  | [name, s] =>
    match validators.lookup name with
    | some f => if f (unescField s).toList then "1" else "0"
    | none =>
      if name.startsWith "regex:" then
        match repoRegexTable.lookup (name.drop 6).toString with
        | some g => if g.test (unescField s).toList then "1" else "0"
        | none => "bad-op"
      else "bad-op"
  | _ => "bad-op"

def lexLine (line : String) : String :=
  match lex (unescField line).toList with
  | .ok ts => " ".intercalate (ts.map tokStr)
  | .error e => "error " ++ errStr e

end NGF.Inj

/-! ### `print` mode: the flat scenario of harness/c02 (decoders copied from Driver/C03) and the real files -/
namespace NGF.C04Print
open Lean

namespace Flat
open NGF.Spec.GatewayAPI

def str (j : Json) (k : String) : Except String String := do (← j.getObjVal? k).getStr?
def nat (j : Json) (k : String) : Except String Nat := do (← j.getObjVal? k).getNat?
def int (j : Json) (k : String) : Except String Int := do (← j.getObjVal? k).getInt?
def bool (j : Json) (k : String) : Except String Bool := do (← j.getObjVal? k).getBool?
def arr (j : Json) (k : String) : Except String (List Json) := do
  match j.getObjVal? k with
  | .ok v => if v.isNull then pure [] else return (← v.getArr?).toList
  | .error _ => pure []
def strs (j : Json) (k : String) : Except String (List String) := do (← arr j k).mapM (·.getStr?)
def strMap (j : Json) (k : String) : Except String (List (String × String)) := do
  match j.getObjVal? k with
  | .ok (.obj m) => m.toList.mapM fun (a, b) => do pure (a, ← b.getStr?)
  | _ => pure []

def dKV (j : Json) : Except String KV := do pure ⟨← str j "type", ← str j "name", ← str j "value"⟩
def dHeader (j : Json) : Except String Header := do pure ⟨← str j "name", ← str j "value"⟩

def dMatch (j : Json) : Except String Match := do
  pure { ptype := ← str j "ptype", pvalue := ← str j "pvalue", method := ← str j "method",
         headers := ← (← arr j "headers").mapM dKV, query := ← (← arr j "query").mapM dKV,
         hasGm := ← bool j "hasGm", gmType := ← str j "gmType", hasService := ← bool j "hasService",
         service := ← str j "service", hasGMethod := ← bool j "hasGMethod", gmethod := ← str j "gmethod" }

def dFilter (j : Json) : Except String Filter := do
  pure { type := ← str j "type", present := ← bool j "present", scheme := ← str j "scheme", hostname := ← str j "hostname",
         hasPort := ← bool j "hasPort", port := ← nat j "port", code := ← nat j "code", pathType := ← str j "pathType",
         pathValue := ← str j "pathValue", set := ← (← arr j "set").mapM dHeader, add := ← (← arr j "add").mapM dHeader,
         remove := ← strs j "remove" }

def dBackend (j : Json) : Except String Backend := do
  pure { group := ← str j "group", kind := ← str j "kind", hasNs := ← bool j "hasNs", ns := ← str j "ns", name := ← str j "name",
         hasPort := ← bool j "hasPort", port := (← int j "port").toNat, weight := ← int j "weight", nfilters := ← nat j "nfilters" }

def dRule (j : Json) : Except String Rule := do
  pure { matches_ := ← (← arr j "matches").mapM dMatch, filters := ← (← arr j "filters").mapM dFilter,
         backends := ← (← arr j "backends").mapM dBackend }

def dParent (j : Json) : Except String ParentRef := do
  pure { group := ← str j "group", kind := ← str j "kind", hasNs := ← bool j "hasNs", ns := ← str j "ns", name := ← str j "name",
         hasSection := ← bool j "hasSection", sectionName := ← str j "section", hasPort := ← bool j "hasPort" }

def dRoute (j : Json) : Except String Route := do
  pure { kind := ← str j "kind", ns := ← str j "ns", name := ← str j "name", age := ← int j "age",
         parents := ← (← arr j "parents").mapM dParent, hostnames := ← strs j "hostnames", rules := ← (← arr j "rules").mapM dRule }

def dListener (j : Json) : Except String Listener := do
  pure { name := ← str j "name", port := (← int j "port").toNat, proto := ← str j "proto", hasHost := ← bool j "hasHost",
         host := ← str j "host", hasTls := ← bool j "hasTls", tlsMode := ← str j "tlsMode", tlsOpts := ← nat j "tlsOpts",
         certs := ← (← arr j "certs").mapM (fun c => do
           pure ({ group := ← str c "group", kind := ← str c "kind", hasNs := ← bool c "hasNs", ns := ← str c "ns", name := ← str c "name" } : CertRef)),
         nsFrom := ← str j "from", hasSel := ← bool j "hasSel", selMatch := ← strMap j "selMatch", selExprs := ← nat j "selExprs",
         hasKinds := ← bool j "hasKinds",
         kinds := ← (← arr j "kinds").mapM (fun c => do pure (⟨← str c "group", ← str c "kind"⟩ : KindRef)) }

def dScenario (j : Json) : Except String Scenario := do
  pure { cls := ← str j "class", ctlr := ← str j "ctlr",
         protectedPorts := ← (← arr j "protected").mapM (·.getNat?),
         gcs := ← (← arr j "gcs").mapM (fun c => do pure (⟨← str c "name", ← str c "ctlr", ← int c "age", ← bool c "params"⟩ : GatewayClass)),
         gws := ← (← arr j "gws").mapM (fun g => do
           pure ({ ns := ← str g "ns", name := ← str g "name", cls := ← str g "class", age := ← int g "age",
                   addresses := ← nat g "addresses", listeners := ← (← arr g "listeners").mapM dListener } : Gateway)),
         nss := ← (← arr j "nss").mapM (fun n => do pure (⟨← str n "name", ← strMap n "labels"⟩ : Namespace)),
         routes := ← (← arr j "routes").mapM dRoute,
         svcs := ← (← arr j "svcs").mapM (fun v => do
           pure ({ ns := ← str v "ns", name := ← str v "name",
                   ports := ← (← arr v "ports").mapM (fun p => do pure (⟨(← int p "port").toNat, ← bool p "ready"⟩ : SvcPort)) } : Svc)),
         grants := ← (← arr j "grants").mapM (fun g => do
           pure ({ ns := ← str g "ns",
                   «from» := ← (← arr g "from").mapM (fun f => do pure (⟨← str f "group", ← str f "kind", ← str f "ns"⟩ : GrantFrom)),
                   to := ← (← arr g "to").mapM (fun t => do pure (⟨← str t "group", ← str t "kind", ← bool t "hasName", ← str t "name"⟩ : GrantTo)) } : Grant)),
         secrets := ← (← arr j "secrets").mapM (fun x => do pure (⟨← str x "ns", ← str x "name", ← bool x "ok"⟩ : Secret)) }

end Flat

def getStr (j : Json) (k : String) : String := (j.getObjValAs? String k).toOption.getD ""

def printCase (j : Json) : Except String Json := do
  if getStr j "panic" != "" then
    return Json.mkObj [("panic", getStr j "panic")]
  let s ← Flat.dScenario (← j.getObjVal? "flat")
  let t := NGF.PrintTie.tie (getStr j "http") (getStr j "matches") s
  pure (Json.mkObj [("fieldsOK", t.fieldsOK), ("condsOK", t.condsOK), ("noBackslash", t.noBackslash), ("fieldsSafe", t.fieldsSafe),
    ("markHttp", t.markHttp), ("markMatches", t.markMatches), ("realLexes", t.realLexes), ("realRoundtrip", t.realRoundtrip),
    ("inFragment", t.inFragment), ("why", t.why), ("rawSame", t.rawSame), ("toksEqual", t.toksEqual), ("skelEqual", t.skelEqual),
    ("diff", t.diff), ("dirsOK", t.dirsOK), ("dirsOKw", t.dirsOKw), ("roundtrip", t.roundtrip), ("markModel", t.markModel), ("tokens", t.tokens),
    ("modelChars", t.modelChars), ("skel", t.skel), ("modelSkel", t.modelSkel), ("skelIntended", t.skelIntended)])

def printLine (l : String) : String :=
  match Json.parse l with
  | .error e => (Json.mkObj [("error", "bad-op"), ("why", e)]).compress
  | .ok j =>
    match printCase j with
    | .ok v => v.compress
    | .error e => (Json.mkObj [("error", "bad-op"), ("why", e)]).compress

end NGF.C04Print

def main (args : List String) : IO UInt32 := do
  let stdin ← IO.getStdin
  let stdout ← IO.getStdout
  match args with
  | ["judge"] =>
    let ref ← IO.mkRef ({ contents := #[], lexed := #[], base := [] } : NGF.Inj.St)
    NGF.Proto.forEachLine stdin fun l => do
      stdout.putStrLn (← NGF.Inj.judgeLine ref l)
    stdout.flush
    return 0
  | ["regex"] =>
    NGF.Proto.forEachLine stdin fun l => stdout.putStrLn (NGF.Inj.regexLine l)
    stdout.flush
    return 0
  | ["model"] =>
    NGF.Proto.forEachLine stdin fun l => stdout.putStrLn (NGF.Inj.regexLine l)
    stdout.flush
    return 0
  | ["print"] =>
    NGF.Proto.forEachLine stdin fun l => stdout.putStrLn (NGF.C04Print.printLine l)
    stdout.flush
    return 0
  | ["lex"] =>
    NGF.Proto.forEachLine stdin fun l => stdout.putStrLn (NGF.Inj.lexLine l)
    stdout.flush
    return 0
  | _ =>
    IO.eprintln "usage: ngfdriver_C04 judge|regex|model|lex|print"
    return 2
