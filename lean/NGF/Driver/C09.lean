import Lean.Data.Json
import NGF.Model.Leader
import NGF.Model.LeaderJudge
import NGF.Model.LeaderWiring
import NGF.Model.LeaderWiringJudge
import NGF.Model.LeaderFaults
import NGF.Model.Proto
/-
Driver entry for C09.
  model line :  `ops=<op;op;…>`        op: `u:<g>:<reqs>` | `e:<order>`      (`-` = empty list)
  output     :  `outs=<o;o;…>`         o : `-` (nothing visible) | `P` (panic) | `<g>:<reqs>|<g>:<reqs>…`
                                        (writes without requests are invisible and not printed)
  judge line :  `elected=<n|-> ops=<hop;hop;…> writes=<w;w;…>`
                 hop: `u:<g>:<call>:<ret>:<reqs>` | `e:<call>:<ret>:<panicked 0|1>`
                 w  : `<opindex>:<tag>:<stamp>`   (`-` = no writes)
  output     :  `ok` | `fail <clause>`
  fmodel line:  `bad=<tags> ops=<…>`   the model under scripted failures: `outcome` (every healthy request of a call is
                                        written) applied to `run init ops`; output as `model`
  fjudge line:  `bad=<tags> elected=… ops=… writes=…`   `judgeF`: the judge on the history restricted to healthy resources
  wfjudge line: wjudge JSON with an extra "bad":[[kind,ns,name]…]   `judgeWF`
  wmodel line:  `evs=<step;step;…>`     step: events joined by `+`; event: `B:<all>:<gw>` | `N` | `C:<cp>` | `S:<gw>` |
                                        `E:<order>`   (request lists: interned ids)
  output     :  `groups=<g,g;…> outs=<o;o;…>`  the groups every step submits (`HEv.groups`) and, per UpdateGroup /
                                        Enable call, what `runR allFresh` writes (format of `outs` above)
  wjudge line:  JSON {"steps":[{"e":bool,"subs":[g…],"want":null|[[req…],[req…],[req…]],"wrote":[req…]}…]},
                req = [kind, ns, name, payload]
  output     :  `ok` | `fail <clause>`
-/
namespace NGF.Leader
open NGF.Proto

def parseOp (s : String) : Option Op :=
  match s.splitOn ":" with
  | ["u", g, r] => do
    let g ← g.toNat?
    let r ← parseNatList r
    pure (.update g r)
  | ["e", o] => (parseNatList o).map Op.enable
  | _ => none

def parseOps (s : String) : Option (List Op) :=
  if s == "-" then some [] else (s.splitOn ";").mapM parseOp

def showOut : Out → String
  | .panic => "P"
  | .writes ws =>
    let vis := ws.filter (fun w => !w.2.isEmpty)
    if vis.isEmpty then "-"
    else "|".intercalate (vis.map fun w => s!"{w.1}:{showNatList w.2}")

def modelLine (line : String) : String :=
  let fs := line.splitOn " "
  match field fs "ops" >>= parseOps with
  | some ops => "outs=" ++ (if ops.isEmpty then "-" else ";".intercalate ((run init ops).map showOut))
  | none => "bad-op"

def parseHOp (s : String) : Option HOp :=
  match s.splitOn ":" with
  | ["u", g, c, r, reqs] => do
    let g ← g.toNat?
    let c ← c.toNat?
    let r ← r.toNat?
    let reqs ← parseNatList reqs
    if c < r then pure { isEnable := false, g := g, reqs := reqs, call := c, ret := r, panicked := false }
    else none
  | ["e", c, r, p] => do
    let c ← c.toNat?
    let r ← r.toNat?
    if c < r && (p == "0" || p == "1") then
      pure { isEnable := true, g := 0, reqs := [], call := c, ret := r, panicked := p == "1" }
    else none
  | _ => none

def parseHWrite (s : String) : Option HWrite :=
  match s.splitOn ":" with
  | [o, tag, t] => do
    let o ← o.toNat?
    let tag ← tag.toNat?
    let t ← t.toNat?
    pure { op := o, tag := tag, t := t }
  | _ => none

def sortedB : List Nat → Bool
  | a :: b :: t => a < b && sortedB (b :: t)
  | _ => true

def parseHistory (line : String) : Option History :=
  let fs := line.splitOn " "
  match field fs "elected", field fs "ops", field fs "writes" with
  | some el, some ops, some ws => do
    let el ← if el == "-" then some none else el.toNat?.map some
    let ops ← if ops == "-" then some [] else (ops.splitOn ";").mapM parseHOp
    let ws ← if ws == "-" then some [] else (ws.splitOn ";").mapM parseHWrite
    if sortedB (ws.map (·.t)) then pure { elected := el, ops := ops, writes := ws } else none
  | _, _, _ => none

def judgeLine (line : String) : String :=
  match parseHistory line with
  | none => "bad-op"
  | some h =>
    match judge h with
    | none => "ok"
    | some c => "fail " ++ c

/-! ### scripted API failures -/

def fmodelLine (line : String) : String :=
  let fs := line.splitOn " "
  match field fs "bad" >>= parseNatList, field fs "ops" >>= parseOps with
  | some bad, some ops =>
    "outs=" ++ (if ops.isEmpty then "-" else
      ";".intercalate ((run init ops).map fun o => showOut (outcome (fun t => bad.contains t) o)))
  | _, _ => "bad-op"

def fjudgeLine (line : String) : String :=
  let fs := line.splitOn " "
  match field fs "bad" >>= parseNatList, parseHistory line with
  | some bad, some h =>
    match judgeF bad h with
    | none => "ok"
    | some c => "fail " ++ c
  | _, _ => "bad-op"

/-! ### wiring stream -/

def parseHEv (s : String) : Option HEv :=
  match s.splitOn ":" with
  | ["B", a, g] => do
    let a ← parseNatList a
    let g ← parseNatList g
    pure (.graph a g)
  | ["N"] => some .noChange
  | ["C", c] => (parseNatList c).map HEv.control
  | ["S", g] => (parseNatList g).map HEv.frontSvc
  | ["E", o] => (parseNatList o).map HEv.enable
  | _ => none

def parseWSteps (s : String) : Option (List (List HEv)) :=
  (s.splitOn ";").mapM fun st => (st.splitOn "+").mapM parseHEv

def wmodelLine (line : String) : String :=
  let fs := line.splitOn " "
  match field fs "evs" >>= parseWSteps with
  | some steps =>
    let evs := steps.flatten
    let groups := steps.map fun st => showNatList (st.flatMap HEv.groups)
    let outs := (runR allFresh evs).map showOut
    "groups=" ++ ";".intercalate groups ++ " outs=" ++ (if outs.isEmpty then "-" else ";".intercalate outs)
  | none => "bad-op"

open Lean (Json) in
def parseSReq (j : Json) : Except String SReq := do
  match (← j.getArr?).toList with
  | [k, n, m, p] => return ⟨← k.getNat?, ← n.getNat?, ← m.getNat?, ← p.getNat?⟩
  | _ => throw "request"

open Lean (Json) in
def parseWStep (j : Json) : Except String WStep := do
  let e ← (← j.getObjVal? "e").getBool?
  let subs ← (← (← j.getObjVal? "subs").getArr?).toList.mapM (·.getNat?)
  let wrote ← (← (← j.getObjVal? "wrote").getArr?).toList.mapM parseSReq
  let wj ← j.getObjVal? "want"
  let want ← if wj.isNull then pure none else do
    let gs ← (← wj.getArr?).toList.mapM fun g => do (← g.getArr?).toList.mapM parseSReq
    pure (some gs)
  return { enable := e, subs := subs, want := want, wrote := wrote }

open Lean (Json) in
def wjudgeLine (line : String) : String :=
  match Json.parse line with
  | .error _ => "bad-op"
  | .ok j =>
    match (do (← (← j.getObjVal? "steps").getArr?).toList.mapM parseWStep : Except String (List WStep)) with
    | .error _ => "bad-op"
    | .ok steps =>
      match judgeW steps with
      | none => "ok"
      | some c => "fail " ++ c

open Lean (Json) in
def wfjudgeLine (line : String) : String :=
  match Json.parse line with
  | .error _ => "bad-op"
  | .ok j =>
    match (do
        let steps ← (← (← j.getObjVal? "steps").getArr?).toList.mapM parseWStep
        let bad ← (← (← j.getObjVal? "bad").getArr?).toList.mapM fun b => do
          match (← b.getArr?).toList with
          | [k, n, m] => pure ((← k.getNat?), (← n.getNat?), (← m.getNat?))
          | _ => throw "bad"
        pure (bad, steps) : Except String (List (Nat × Nat × Nat) × List WStep)) with
    | .error _ => "bad-op"
    | .ok (bad, steps) =>
      match judgeWF bad steps with
      | none => "ok"
      | some c => "fail " ++ c

def driver (args : List String) : IO UInt32 := do
  let stdin ← IO.getStdin
  let stdout ← IO.getStdout
  match args with
  | ["model"] => forEachLine stdin fun l => stdout.putStrLn (modelLine l)
  | ["judge"] => forEachLine stdin fun l => stdout.putStrLn (judgeLine l)
  | ["wmodel"] => forEachLine stdin fun l => stdout.putStrLn (wmodelLine l)
  | ["wjudge"] => forEachLine stdin fun l => stdout.putStrLn (wjudgeLine l)
  | ["fmodel"] => forEachLine stdin fun l => stdout.putStrLn (fmodelLine l)
  | ["fjudge"] => forEachLine stdin fun l => stdout.putStrLn (fjudgeLine l)
  | ["wfjudge"] => forEachLine stdin fun l => stdout.putStrLn (wfjudgeLine l)
  | _ => IO.eprintln "usage: C09 model|judge|wmodel|wjudge|fmodel|fjudge|wfjudge"; return 2
  return 0

end NGF.Leader

/-- executable entry point: `ngfdriver_C09 model|judge` -/
def main (args : List String) : IO UInt32 := NGF.Leader.driver args
