import NGF.Model.Leader
import NGF.Model.LeaderJudge
import NGF.Model.Proto
/-
Driver entry for C09.
  model line :  `ops=<op;op;…>`        op: `u:<g>:<reqs>` | `e:<order>`      (`-` = empty list)
  output     :  `outs=<o;o;…>`         o : `-` (nothing visible) | `P` (panic) | `<g>:<reqs>|<g>:<reqs>…`
                                        (writes without requests are invisible and not printed)
  judge line :  `elected=<n|-> ops=<hop;hop;…> writes=<w;w;…>`
                 hop: `u:<g>:<call>:<ret>:<reqs>` | `e:<call>:<ret>:<panicked 0|1>`
                 w  : `<opindex>:<tag>:<stamp>`   (`-` = no writes)
  output     :  `ok` | `fail <clause>`
-/
namespace NGF.Leader
open NGF.Proto

def parseOp (s : String) : Option Op :=
  match s.splitOn ":" with
  | ["u", g, r] => do
    let g ← g.toNat?
    let r ← parseNatList r
    pure (.update g r)
  | ["e", o] => (parseNatList o).map Op.enable
  | _ => none

def parseOps (s : String) : Option (List Op) :=
  if s == "-" then some [] else (s.splitOn ";").mapM parseOp

def showOut : Out → String
  | .panic => "P"
  | .writes ws =>
    let vis := ws.filter (fun w => !w.2.isEmpty)
    if vis.isEmpty then "-"
    else "|".intercalate (vis.map fun w => s!"{w.1}:{showNatList w.2}")

def modelLine (line : String) : String :=
  let fs := line.splitOn " "
  match field fs "ops" >>= parseOps with
  | some ops => "outs=" ++ (if ops.isEmpty then "-" else ";".intercalate ((run init ops).map showOut))
  | none => "bad-op"

def parseHOp (s : String) : Option HOp :=
  match s.splitOn ":" with
  | ["u", g, c, r, reqs] => do
    let g ← g.toNat?
    let c ← c.toNat?
    let r ← r.toNat?
    let reqs ← parseNatList reqs
    if c < r then pure { isEnable := false, g := g, reqs := reqs, call := c, ret := r, panicked := false }
    else none
  | ["e", c, r, p] => do
    let c ← c.toNat?
    let r ← r.toNat?
    if c < r && (p == "0" || p == "1") then
      pure { isEnable := true, g := 0, reqs := [], call := c, ret := r, panicked := p == "1" }
    else none
  | _ => none

def parseHWrite (s : String) : Option HWrite :=
  match s.splitOn ":" with
  | [o, tag, t] => do
    let o ← o.toNat?
    let tag ← tag.toNat?
    let t ← t.toNat?
    pure { op := o, tag := tag, t := t }
  | _ => none

def sortedB : List Nat → Bool
  | a :: b :: t => a < b && sortedB (b :: t)
  | _ => true

def parseHistory (line : String) : Option History :=
  let fs := line.splitOn " "
  match field fs "elected", field fs "ops", field fs "writes" with
  | some el, some ops, some ws => do
    let el ← if el == "-" then some none else el.toNat?.map some
    let ops ← if ops == "-" then some [] else (ops.splitOn ";").mapM parseHOp
    let ws ← if ws == "-" then some [] else (ws.splitOn ";").mapM parseHWrite
    if sortedB (ws.map (·.t)) then pure { elected := el, ops := ops, writes := ws } else none
  | _, _, _ => none

def judgeLine (line : String) : String :=
  match parseHistory line with
  | none => "bad-op"
  | some h =>
    match judge h with
    | none => "ok"
    | some c => "fail " ++ c

def driver (args : List String) : IO UInt32 := do
  let stdin ← IO.getStdin
  let stdout ← IO.getStdout
  match args with
  | ["model"] => forEachLine stdin fun l => stdout.putStrLn (modelLine l)
  | ["judge"] => forEachLine stdin fun l => stdout.putStrLn (judgeLine l)
  | _ => IO.eprintln "usage: C09 model|judge"; return 2
  return 0

end NGF.Leader

/-- executable entry point: `ngfdriver_C09 model|judge` -/
def main (args : List String) : IO UInt32 := NGF.Leader.driver args
