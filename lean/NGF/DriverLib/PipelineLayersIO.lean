import Lean.Data.Json
import NGF.DriverLib.PipelineIO
import NGF.DriverLib.C17Frag
import NGF.Model.PipelineEndpoints
import NGF.Model.PipelineTlsTie
import NGF.Model.PipelineStatusTie
/-
C14, stream `pipeL` (driver mode `layers` of ngfdriver_C14): ONE cluster state of one of three families — `refs` (C06's
generator: Services, cross-namespace backendRefs, ReferenceGrants, EndpointSlices), `tls` (C16's generator: HTTPS
listeners, Secrets, grants), `base` (C02's fragment generator + competition) — fed to the real pipeline in several arrival
orders. Per order the harness sends the objects IN THAT ARRIVAL ORDER in the flat forms the layer ties read. This module
  * runs the base judge / tie of `PipelineIO.pipelineLine` (order independence of the REAL outputs, `Pipeline.gen`);
  * refs     : `C17Frag.side` → `ScenarioR` per order; `genR c_i` against the abstracted real configuration of order i;
               `genR_perm_equiv` / `genR_perm_meaning` / `referencedServices_perm` / `resolution_perm` executed;
  * endpoints: `ScenarioE` per order; `PipelineEndpoints.httpUpstreams` against the `upstream` blocks of the real http.conf
               of order i (server SETS); `upstreamsOf_perm` executed;
  * tls      : `PipelineTlsTie.tieT` per order (http.conf SSL servers and secret files against `genT`); the real abstracted
               TLS configurations of all orders agree; `genT_perm` executed (canonical text, key pairs, served Gateway);
  * status   : `PipelineStatusTie.compareFragment` per order (model statuses against the real statuses of order i);
               `route_status_perm` / `gateway_status_perm` executed.
Decoders: `PipelineIO` (flat scenario, files), `C17Frag` (C06's flat input); the small ones for Secrets / statuses follow
Driver/C16 and Driver/C07 (Driver files cannot be imported). Not subject of theorems.
-/
namespace NGF.PipelineLayersIO
open Lean (Json)
open NGF.C17Frag (optField reqStr reqNat reqArr optStr optNat)
open NGF.Pipeline

def reqBool (j : Json) (k : String) : Except String Bool := do (← j.getObjVal? k).getBool?
def reqInt (j : Json) (k : String) : Except String Int := do (← j.getObjVal? k).getInt?
def optBool (j : Json) (k : String) : Except String (Option Bool) :=
  match optField j k with | none => pure none | some v => do pure (some (← v.getBool?))

def firstSome {α} (l : List α) (f : Nat → α → Option String) : Option String :=
  ((List.range l.length).zip l).findSome? fun (i, a) => f i a

def sortStrs := NGF.PipelineTie.sortStrs

/-! ### endpoints -/

def parsePortInfo (j : Json) : Except String NGF.PipelineEndpoints.PortInfo := do
  let tp : NGF.Resolver.TargetPort ← match ← optStr j "tps" with
    | some s => pure (.str s)
    | none => do pure (.int ((← optNat j "tpi").getD 0))
  return { ns := ← reqStr j "ns", name := ← reqStr j "name", sp := ⟨← reqStr j "pname", ← reqNat j "port", tp⟩ }

def parseSlice (j : Json) : Except String NGF.Resolver.Slice := do
  let ty ← reqStr j "type"
  let aty : NGF.Resolver.AddrType := if ty == "IPv4" then .ipv4 else if ty == "IPv6" then .ipv6 else if ty == "FQDN" then .fqdn else .other
  let ports ← (← reqArr j "ports").mapM fun p => do
    return (⟨← optStr p "name", ← optNat p "port"⟩ : NGF.Resolver.EndpointPort)
  let eps ← (← reqArr j "eps").mapM fun e => do
    return (⟨← (← reqArr e "addrs").mapM (·.getStr?), ← optBool e "ready"⟩ : NGF.Resolver.Endpoint)
  return { ns := ← reqStr j "ns", svcLabel := ← optStr j "label", addrType := aty, ports := ports, endpoints := eps }

/-- (name, sorted servers) of the `upstream` blocks of the real http.conf -/
def realUpstreams (http : List NGF.Nginx.Dir) : List (String × List String) :=
  (NGF.NginxEval.findDirs "upstream" http).map fun d =>
    ((NGF.NginxEval.Dir.argS d).headD "",
     sortStrs (((NGF.NginxEval.findDirs "server" (d.block.getD [])).map fun x => (NGF.NginxEval.Dir.argS x).headD "")))

def modelUpstreams (e : NGF.PipelineEndpoints.ScenarioE) : List (String × List String) :=
  (NGF.PipelineEndpoints.httpUpstreams e).map fun u => (u.name, sortStrs (NGF.Resolver.configServers u))

def byName (l : List (String × List String)) : List (String × List String) := l.mergeSort fun a b => a.1 ≤ b.1

def upsDiff (real model : List (String × List String)) : Option String :=
  let r := byName real
  let m := byName model
  if r == m then none
  else match (r.zip m).find? (fun p => p.1 != p.2) with
    | some p => some s!"real upstream {p.1.1} {p.1.2} ### model upstream {p.2.1} {p.2.2}"
    | none => some s!"real has {r.length} upstream blocks {r.map (·.1)}, model {m.length} {m.map (·.1)}"

/-- server SETS per upstream name -/
def upSets (e : NGF.PipelineEndpoints.ScenarioE) : List (String × List String) :=
  byName ((NGF.PipelineEndpoints.upstreamsOf e).map fun u => (u.name, sortStrs (u.eps.map NGF.Resolver.serverAddress)))

/-! ### TLS -/

def parseSecret (j : Json) : Except String NGF.Tls.SecretObj := do
  return { ns := (← reqStr j "ns").toList, name := (← reqStr j "name").toList, isTLS := (← reqStr j "type") == "kubernetes.io/tls",
           pairOK := ← reqBool j "pairOK", cert := (← reqStr j "cert").toList, key := (← reqStr j "key").toList }

/-! ### statuses (as Driver/C07 `pPrepared`, `pGens`) -/

open NGF.StatusPrep in
def pApiConds (j : Json) (k : String) : Except String (List ApiCond) := do
  (← reqArr j k).mapM fun c => do return ⟨← reqStr c "t", ← reqStr c "s", ← reqStr c "r", ← reqInt c "g"⟩

open NGF.StatusPrep in
def pPrepared (s : Json) : Except String Prepared := do
  let routes ← (← reqArr s "routes").mapM fun r => do
    let ps ← (← reqArr r "parents").mapM fun e => do
      pure (ParentStatus.mk (← reqStr e "ns") (← reqStr e "name") (← optStr e "section") (← reqStr e "ctl")
        (← pApiConds e "conds"))
    pure (RouteStatus.mk (← reqStr r "kind") (← reqStr r "ns") (← reqStr r "name") ps)
  let gws ← (← reqArr s "gateways").mapM fun g => do
    let ls ← (← reqArr g "listeners").mapM fun l => do
      pure (ListenerStatus.mk (← reqStr l "name") (← reqNat l "attached") (← pApiConds l "conds"))
    pure (GatewayStatus.mk (← reqStr g "ns") (← reqStr g "name") (← pApiConds g "conds") ls)
  return ⟨routes, gws, []⟩

def pGens (o : Json) : Except String (String → String → String → Int) := do
  let gws ← (← reqArr o "gateways").mapM fun g => do pure (("Gateway", ← reqStr g "ns", ← reqStr g "name"), ← reqInt g "gen")
  let rs ← (← reqArr o "routes").mapM fun r => do pure ((← reqStr r "kind", ← reqStr r "ns", ← reqStr r "name"), ← reqInt r "gen")
  let tab := gws ++ rs
  pure fun k ns n => (tab.lookup (k, ns, n)).getD 0

/-! ### executable hypotheses -/

def reorderedR (c c' : NGF.PipelineRefs.ScenarioR) : Bool :=
  c'.cls == c.cls && c'.ctlr == c.ctlr && c.classes.isPerm c'.classes && c.gateways.isPerm c'.gateways &&
  c.routes.isPerm c'.routes && c.services.isPerm c'.services && c.grants.isPerm c'.grants

def keysR (c : NGF.PipelineRefs.ScenarioR) : Bool :=
  nodup (c.gateways.map fun g => (g.ns, g.name)) && nodup (c.routes.map fun r => (r.ns, r.name)) &&
  nodup (c.services.map fun s => (s.ns, s.name)) &&
  c.routes.all fun r => r.rules.all fun ru => ru.ms.all fun m => !m.path.isEmpty

def str (x : List Char) : String := String.ofList x

/-! ### one line -/

structure Part where
  /-- orders for which the layer's tie was evaluated and agreed -/
  tied : Nat := 0
  tie : String := ""
  /-- the layer's theorems were executed (hypotheses hold) -/
  hyps : Bool := false
  thm : String := ""
  why : String := ""
  stats : List (String × Nat) := []

def Part.json (p : Part) : Json :=
  Json.mkObj [("tied", p.tied), ("tie", p.tie), ("hyps", p.hyps), ("thm", p.thm), ("why", p.why),
    ("stats", Json.mkObj (p.stats.map fun (k, v) => (k, (v : Json))))]

def refsPart (orders : List Json) (reals : List (Except String Conf)) (probes : List Req) :
    Part × List NGF.PipelineRefs.ScenarioR :=
  match orders.mapM NGF.C17Frag.side with
  | .error e => ({ why := e }, [])
  | .ok sides =>
    let cs := sides.map (·.2)
    match cs with
    | [] => ({ why := "no orders" }, [])
    | c0 :: _ =>
      let tie := firstSome (cs.zip reals) fun i (c, r) => match r with
        | .ok real => (NGF.PipelineTie.confDiff real (NGF.PipelineRefs.genR c)).map fun d => s!"order {i}: {d}"
        | .error e => some s!"order {i}: real configuration not abstractable: {e}"
      let hyps := keysR c0 && cs.all (reorderedR c0)
      let g0 := NGF.PipelineRefs.genR c0
      let thm := if !hyps then none else firstSome cs fun i c =>
        match NGF.PipelineTie.confDiff (NGF.PipelineRefs.genR c) g0 with
        | some d => some s!"genR_perm_equiv: order {i}: {d}"
        | none =>
          match NGF.PipelineIO.meaningDiff probes (NGF.PipelineRefs.genR c) g0 with
          | some d => some s!"genR_perm_meaning: order {i}: {d}"
          | none =>
            if !(NGF.PipelineRefs.referencedServices c).isPerm (NGF.PipelineRefs.referencedServices c0) then
              some s!"referencedServices_perm: order {i}"
            else if !(c0.routes.all fun r => NGF.PipelineRefs.resolveRoute c.grants c.services r ==
                NGF.PipelineRefs.resolveRoute c0.grants c0.services r) then some s!"resolution_perm: order {i}"
            else none
      let nrefs := (c0.routes.flatMap fun r => r.rules.flatMap fun ru => match ru.action with
        | .forward refs => refs | .redirect .. => []).length
      ({ tied := if tie.isNone then cs.length else 0, tie := tie.getD "", hyps := hyps, thm := thm.getD "",
         stats := [("backendRefs", nrefs), ("services", c0.services.length), ("grants", c0.grants.length),
                   ("referencedServices", (NGF.PipelineRefs.referencedServices c0).eraseDups.length),
                   ("rawDiffers", (cs.filter fun c => NGF.PipelineIO.showConfRaw (NGF.PipelineRefs.genR c) != NGF.PipelineIO.showConfRaw g0).length)] }, cs)

def endsPart (orders : List Json) (cs : List NGF.PipelineRefs.ScenarioR) (cfgs : List (Except String NGF.NginxEval.Config)) : Part :=
  let es : Except String (List NGF.PipelineEndpoints.ScenarioE) := (orders.zip cs).mapM fun (o, c) => do
    pure { base := c, ports := ← (← reqArr o "ports").mapM parsePortInfo, slices := ← (← reqArr o "slices").mapM parseSlice }
  match es with
  | .error e => { why := e }
  | .ok [] => { why := "outside the reference layer" }
  | .ok (e0 :: rest) =>
    let all := e0 :: rest
    let tie := firstSome (all.zip cfgs) fun i (e, cfg) => match cfg with
      | .ok cfg => (upsDiff (realUpstreams cfg.http) (modelUpstreams e)).map fun d => s!"order {i}: {d}"
      | .error er => some s!"order {i}: {er}"
    let hyps := NGF.PipelineRefs.namesOK e0.base && nodup (e0.ports.map fun i => (i.ns, i.name, i.sp.port)) &&
      all.all fun e => e0.ports.isPerm e.ports && e0.slices.isPerm e.slices
    let u0 := upSets e0
    let thm := if !hyps then none else firstSome all fun i e =>
      if upSets e == u0 then none else some s!"upstreamsOf_perm: order {i}: {upSets e} / {u0}"
    let orderDiffers := (all.filter fun e =>
      (NGF.PipelineEndpoints.upstreamsOf e).map (fun u => (u.name, u.eps)) != (NGF.PipelineEndpoints.upstreamsOf e0).map (fun u => (u.name, u.eps))).length
    { tied := if tie.isNone then all.length else 0, tie := tie.getD "", hyps := hyps, thm := thm.getD "",
      stats := [("upstreams", u0.length), ("servers", (u0.map (·.2.length)).sum), ("slices", e0.slices.length),
                ("modelListOrderDiffers", orderDiffers)] }

def tlsPart (orders : List Json) (cfgs : List (Except String NGF.NginxEval.Config)) : Part × Option String :=
  let ins : Except String (List (NGF.Spec.GatewayAPI.Scenario × List NGF.Tls.SecretObj × List (String × String))) :=
    orders.mapM fun o => do
      let flat ← NGF.PipelineIO.dScenario (← o.getObjVal? "flat")
      let secrets ← (← reqArr o "secrets").mapM parseSecret
      let sfiles ← (← reqArr o "sfiles").mapM fun f => do pure (← reqStr f "path", ← reqStr f "content")
      pure (flat, secrets, sfiles)
  match ins with
  | .error e => ({ why := e }, none)
  | .ok ins =>
    let ties := (ins.zip cfgs).map fun ((flat, secrets, sfiles), cfg) => match cfg with
      | .ok cfg => some (NGF.PipelineTlsTie.tieT cfg flat secrets sfiles)
      | .error _ => none
    match ties.head? with
    | none | some none => ({ why := "unparsable configuration" }, none)
    | some (some t0) =>
      if !t0.inFragment then ({ why := t0.why }, none) else
      let tie := firstSome ties fun i t => match t with
        | none => some s!"order {i}: unparsable"
        | some t =>
          if !t.inFragment then some s!"order {i}: {t.why}"
          else if !t.confEqual then some s!"order {i}: {t.confDiff}"
          else if !t.filesEqual then some s!"order {i}: secret files: {t.filesDiff}"
          else if t.thmFail != "" then some s!"order {i}: C16 theorem: {t.thmFail}"
          else none
      -- the property on the real outputs: the abstracted TLS configurations agree
      let reals := cfgs.map fun c => match c with
        | .ok cfg => (NGF.PipelineTlsTie.abstractConfT cfg).toOption.map NGF.PipelineTlsTie.showReal
        | .error _ => none
      let judge := match reals.head? with
        | some (some r0) => firstSome reals fun i r => match r with
          | some r => if r == r0 then none else (NGF.PipelineTlsTie.firstDiff r r0).map fun d => s!"order {i} vs order 0: {d}"
          | none => some s!"order {i} not abstractable but order 0 is"
        | _ => none
      let fss := ins.filterMap fun (flat, secrets, _) => (NGF.PipelineTlsTie.toFragmentT flat secrets).toOption
      match fss with
      | [] => ({ why := "toFragmentT" }, judge)
      | f0 :: _ =>
        let hyps := nodup (f0.gateways.map fun g => (g.ns, g.name)) && nodup (f0.routes.map fun r => (r.ns, r.name)) &&
          nodup (f0.secrets.map fun x => (x.ns, x.name)) &&
          fss.all fun f => f.cls == f0.cls && f.ctlr == f0.ctlr && f0.classes.isPerm f.classes && f0.gateways.isPerm f.gateways &&
            f0.routes.isPerm f.routes && (f0.secrets.map fun x => (x.ns, x.name, x.isTLS, x.pairOK, x.cert, x.key)).isPerm
              (f.secrets.map fun x => (x.ns, x.name, x.isTLS, x.pairOK, x.cert, x.key))
        let m0 := NGF.PipelineTls.genT f0
        let thm := if !hyps then none else firstSome fss fun i f =>
          let m := NGF.PipelineTls.genT f
          if NGF.PipelineTls.winnerT f != NGF.PipelineTls.winnerT f0 then some s!"winnerT_perm: order {i}"
          else if m.keyPairs != m0.keyPairs then some s!"genT_perm (key pairs): order {i}"
          else (NGF.PipelineTlsTie.firstDiff (NGF.PipelineTlsTie.showModel m) (NGF.PipelineTlsTie.showModel m0)).map
            fun d => s!"genT_perm: order {i}: {d}"
        ({ tied := if tie.isNone then ties.length else 0, tie := tie.getD "", hyps := hyps, thm := thm.getD "",
           stats := [("sslServers", t0.stats.sslServers), ("keyPairs", t0.stats.keyPairs), ("validHttps", t0.stats.validHttps),
                     ("httpsListeners", t0.stats.httpsListeners), ("conflicted", t0.stats.conflictedL),
                     ("contested", t0.stats.contested), ("thmChecks", t0.thmChecks)] }, judge)

def statusPart (orders : List Json) : Part :=
  let ins : Except String (List (Pipeline.Scenario × NGF.StatusPrep.Prepared × (String → String → String → Int))) :=
    orders.mapM fun o => do
      let flat ← NGF.PipelineIO.dScenario (← o.getObjVal? "flat")
      let fs ← NGF.PipelineStatusTie.toFragmentV flat
      if !NGF.PipelineStatus.statusOK fs then throw "statusOK"
      pure (fs, ← pPrepared (← o.getObjVal? "st"), ← pGens (← o.getObjVal? "objs"))
  match ins with
  | .error e => { why := e }
  | .ok [] => { why := "no orders" }
  | .ok ((f0, p0, g0) :: rest) =>
    let all := (f0, p0, g0) :: rest
    let reps := all.map fun (fs, real, gens) => NGF.PipelineStatusTie.compareFragment fs false gens real
    let tie := firstSome reps fun i r => if r.diffs.isEmpty then none else some s!"order {i}: {" ;; ".intercalate (r.diffs.take 3)}"
    let hyps := nodup (f0.gateways.map fun g => (g.ns, g.name)) &&
      all.all fun (f, _, _) => f.cls == f0.cls && f.ctlr == f0.ctlr && f0.classes.isPerm f.classes &&
        f0.gateways.isPerm f.gateways && f0.routes.isPerm f.routes
    let thm := if !hyps then none else firstSome all fun i (f, _, _) =>
      if !(f0.routes.all fun r =>
          let gen := g0 "HTTPRoute" (str r.ns) (str r.name)
          NGF.PipelineStatus.routeParentStatuses f false gen r == NGF.PipelineStatus.routeParentStatuses f0 false gen r) then
        some s!"route_status_perm: order {i}"
      else if NGF.PipelineStatus.gatewayStatus f false 1 != NGF.PipelineStatus.gatewayStatus f0 false 1 then
        some s!"gateway_status_perm: order {i}"
      else if !((NGF.PipelineStatus.ignoredGateways f).isPerm (NGF.PipelineStatus.ignoredGateways f0)) then
        some s!"ignored_gateways_perm: order {i}"
      else none
    let r0 := reps.headD {}
    { tied := if tie.isNone then all.length else 0, tie := tie.getD "", hyps := hyps, thm := thm.getD "",
      stats := [("routesWithStatus", r0.withStatus), ("parents", r0.parents), ("listeners", r0.listeners),
                ("ignored", r0.ignored), ("unresolved", r0.unresolved), ("invalidRoutes", r0.invalidRoutes)] }

def layersLine (j : Json) : Except String Json := do
  let fam := NGF.PipelineIO.optStr j "fam"
  let orders ← reqArr j "orders"
  let base ← NGF.PipelineIO.pipelineLine j
  let cfgs := orders.map fun o => match o.getObjVal? "files" with
    | .ok f => NGF.PipelineIO.dConfig f
    | .error e => .error e
  let reals : List (Except String Conf) := cfgs.map fun c => match c with
    | .ok cfg => NGF.PipelineTie.abstractConf cfg
    | .error e => .error e
  let flat0 ← match orders.head? with
    | some o => NGF.PipelineIO.dScenario (← o.getObjVal? "flat")
    | none => throw "no orders"
  let probes := ((NGF.C02.probes flat0 NGF.PipelineIO.probeCap).filter fun r => !r.tls).map NGF.PipelineTie.toReq
  let status := statusPart orders
  if fam == "tls" then
    let (t, tj) := tlsPart orders cfgs
    pure (Json.mkObj [("fam", fam), ("base", base), ("tls", t.json), ("tlsJudge", tj.getD ""), ("status", status.json)])
  else
    let (r, cs) := refsPart orders reals probes
    let e := endsPart orders cs cfgs
    pure (Json.mkObj [("fam", fam), ("base", base), ("refs", r.json), ("ends", e.json), ("status", status.json)])

def answer (line : String) : String :=
  match Json.parse line with
  | .error _ => "{\"error\":\"bad-op\"}"
  | .ok j =>
    if NGF.PipelineIO.optStr j "site" != "pipe" then "{\"skip\":true}"
    else match layersLine j with
      | .ok v => v.compress
      | .error e => (Json.mkObj [("error", "bad-op"), ("why", e)]).compress

end NGF.PipelineLayersIO
