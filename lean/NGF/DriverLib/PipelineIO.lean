import Lean.Data.Json
import NGF.Model.C02Judge
import NGF.Model.PipelineTie
/-
C14, stream `pipe` (driver mode `pipeline` of ngfdriver_C14): ONE in-fragment cluster state, fed to the real pipeline in
several arrival orders. Per order the harness sends the flat scenario with the objects IN THAT ARRIVAL ORDER and the real
files. This module
  * judges the property on the REAL outputs: the abstracted real configurations (`PipelineTie.abstractConf`) of all
    orders are equal up to order (`PipelineTie.confDiff` = canonical text: ports / servers / locations sorted), NGINX
    (`Pipeline.nginxEvalConf`) answers every probe the same way under all of them, and the harness' canonical
    sections of all generated files agree;
  * ties the model to the code per order: `abstractConf(real_i) = Pipeline.gen (toFragment flat_i)` up to order;
  * executes the theorems `gen_perm_equiv` / `gen_perm_meaning` on the permuted fragment scenarios themselves.
The JSON decoders are the ones of Driver/C02.lean (same `harness/c02` flat format; Driver files cannot be imported
because each defines `main`). Not subject of theorems.
-/
namespace NGF.PipelineIO
open Lean (Json)
open NGF.Spec.GatewayAPI

def str (j : Json) (k : String) : Except String String := do (← j.getObjVal? k).getStr?
def nat (j : Json) (k : String) : Except String Nat := do (← j.getObjVal? k).getNat?
def int (j : Json) (k : String) : Except String Int := do (← j.getObjVal? k).getInt?
def bool (j : Json) (k : String) : Except String Bool := do (← j.getObjVal? k).getBool?
def arr (j : Json) (k : String) : Except String (List Json) := do
  match j.getObjVal? k with
  | .ok v => if v.isNull then pure [] else return (← v.getArr?).toList
  | .error _ => pure []
def strs (j : Json) (k : String) : Except String (List String) := do (← arr j k).mapM (·.getStr?)
def strMap (j : Json) (k : String) : Except String (List (String × String)) := do
  match j.getObjVal? k with
  | .ok (.obj m) => m.toList.mapM fun (a, b) => do pure (a, ← b.getStr?)
  | _ => pure []

def dKV (j : Json) : Except String KV := do pure ⟨← str j "type", ← str j "name", ← str j "value"⟩
def dHeader (j : Json) : Except String Header := do pure ⟨← str j "name", ← str j "value"⟩

def dMatch (j : Json) : Except String Match := do
  pure { ptype := ← str j "ptype", pvalue := ← str j "pvalue", method := ← str j "method",
         headers := ← (← arr j "headers").mapM dKV, query := ← (← arr j "query").mapM dKV,
         hasGm := ← bool j "hasGm", gmType := ← str j "gmType", hasService := ← bool j "hasService",
         service := ← str j "service", hasGMethod := ← bool j "hasGMethod", gmethod := ← str j "gmethod" }

def dFilter (j : Json) : Except String Filter := do
  pure { type := ← str j "type", present := ← bool j "present", scheme := ← str j "scheme", hostname := ← str j "hostname",
         hasPort := ← bool j "hasPort", port := ← nat j "port", code := ← nat j "code", pathType := ← str j "pathType",
         pathValue := ← str j "pathValue", set := ← (← arr j "set").mapM dHeader, add := ← (← arr j "add").mapM dHeader,
         remove := ← strs j "remove" }

def dBackend (j : Json) : Except String Backend := do
  pure { group := ← str j "group", kind := ← str j "kind", hasNs := ← bool j "hasNs", ns := ← str j "ns", name := ← str j "name",
         hasPort := ← bool j "hasPort", port := (← int j "port").toNat, weight := ← int j "weight", nfilters := ← nat j "nfilters" }

def dRule (j : Json) : Except String Rule := do
  pure { matches_ := ← (← arr j "matches").mapM dMatch, filters := ← (← arr j "filters").mapM dFilter,
         backends := ← (← arr j "backends").mapM dBackend }

def dParent (j : Json) : Except String ParentRef := do
  pure { group := ← str j "group", kind := ← str j "kind", hasNs := ← bool j "hasNs", ns := ← str j "ns", name := ← str j "name",
         hasSection := ← bool j "hasSection", sectionName := ← str j "section", hasPort := ← bool j "hasPort" }

def dRoute (j : Json) : Except String Route := do
  pure { kind := ← str j "kind", ns := ← str j "ns", name := ← str j "name", age := ← int j "age",
         parents := ← (← arr j "parents").mapM dParent, hostnames := ← strs j "hostnames", rules := ← (← arr j "rules").mapM dRule }

def dListener (j : Json) : Except String Listener := do
  pure { name := ← str j "name", port := (← int j "port").toNat, proto := ← str j "proto", hasHost := ← bool j "hasHost",
         host := ← str j "host", hasTls := ← bool j "hasTls", tlsMode := ← str j "tlsMode", tlsOpts := ← nat j "tlsOpts",
         certs := ← (← arr j "certs").mapM (fun c => do
           pure ({ group := ← str c "group", kind := ← str c "kind", hasNs := ← bool c "hasNs", ns := ← str c "ns", name := ← str c "name" } : CertRef)),
         nsFrom := ← str j "from", hasSel := ← bool j "hasSel", selMatch := ← strMap j "selMatch", selExprs := ← nat j "selExprs",
         hasKinds := ← bool j "hasKinds",
         kinds := ← (← arr j "kinds").mapM (fun c => do pure (⟨← str c "group", ← str c "kind"⟩ : KindRef)) }

def dScenario (j : Json) : Except String Scenario := do
  pure { cls := ← str j "class", ctlr := ← str j "ctlr",
         protectedPorts := ← (← arr j "protected").mapM (·.getNat?),
         gcs := ← (← arr j "gcs").mapM (fun c => do pure (⟨← str c "name", ← str c "ctlr", ← int c "age", ← bool c "params"⟩ : GatewayClass)),
         gws := ← (← arr j "gws").mapM (fun g => do
           pure ({ ns := ← str g "ns", name := ← str g "name", cls := ← str g "class", age := ← int g "age",
                   addresses := ← nat g "addresses", listeners := ← (← arr g "listeners").mapM dListener } : Gateway)),
         nss := ← (← arr j "nss").mapM (fun n => do pure (⟨← str n "name", ← strMap n "labels"⟩ : Namespace)),
         routes := ← (← arr j "routes").mapM dRoute,
         svcs := ← (← arr j "svcs").mapM (fun v => do
           pure ({ ns := ← str v "ns", name := ← str v "name",
                   ports := ← (← arr v "ports").mapM (fun p => do pure (⟨(← int p "port").toNat, ← bool p "ready"⟩ : SvcPort)) } : Svc)),
         grants := ← (← arr j "grants").mapM (fun g => do
           pure ({ ns := ← str g "ns",
                   «from» := ← (← arr g "from").mapM (fun f => do pure (⟨← str f "group", ← str f "kind", ← str f "ns"⟩ : GrantFrom)),
                   to := ← (← arr g "to").mapM (fun t => do pure (⟨← str t "group", ← str t "kind", ← bool t "hasName", ← str t "name"⟩ : GrantTo)) } : Grant)),
         secrets := ← (← arr j "secrets").mapM (fun x => do pure (⟨← str x "ns", ← str x "name", ← bool x "ok"⟩ : Secret)) }

def optStr (j : Json) (k : String) : String := match j.getObjVal? k with | .ok (.str x) => x | _ => ""

def dNjsMatch (j : Json) : Option NGF.NginxEval.Njs.Match :=
  match j with
  | .obj _ =>
    let any := match j.getObjVal? "any" with | .ok (.bool b) => b | _ => false
    let lst (k : String) : List (List Char) := match j.getObjVal? k with
      | .ok (.arr a) => a.toList.filterMap fun x => match x with | .str y => some y.toList | _ => none
      | _ => []
    some { any := any, method := (optStr j "method").toList, headers := lst "headers", params := lst "params",
           redirectPath := (optStr j "redirectPath").toList }
  | _ => none

def dMatches (text : String) : Except String (List (String × Option (List NGF.NginxEval.Njs.Match))) := do
  match ← Json.parse text with
  | .obj m => pure (m.toList.map fun (k, v) =>
      match v with
      | .arr a => (k, (a.toList.mapM dNjsMatch))
      | _ => (k, none))
  | _ => throw "matches.json is not an object"

def dConfig (j : Json) : Except String NGF.NginxEval.Config := do
  let http ← str j "http"
  let stream ← str j "stream"
  let m ← str j "matches"
  let h ← match NGF.Nginx.parseString http with
    | .ok d => pure d
    | .error e => throw s!"http.conf does not parse: {repr e}"
  let st ← match NGF.Nginx.parseString stream with
    | .ok d => pure d
    | .error e => throw s!"stream.conf does not parse: {repr e}"
  pure { http := h, stream := st, matchTab := ← dMatches m }

/-! ### one state, several arrival orders -/

structure Order where
  arrival : String
  flat : Scenario
  real : Except String Pipeline.Conf
  secs : List (String × String)

def dOrder (j : Json) : Except String Order := do
  let flat ← dScenario (← j.getObjVal? "flat")
  let real : Except String Pipeline.Conf :=
    match dConfig (← j.getObjVal? "files") with
    | .error e => .error ("unparsable: " ++ e)
    | .ok cfg => NGF.PipelineTie.abstractConf cfg
  pure { arrival := optStr j "arrival", flat := flat, real := real, secs := ← strMap j "secs" }

/-- the configuration as generated, nothing sorted (to see whether a reordering changes the model's raw output at all) -/
def showConfRaw (c : Pipeline.Conf) : List String :=
  [s!"ports {c.ports}"] ++ c.servers.map fun sv =>
    s!"server {sv.port} {String.ofList sv.name}: " ++ " | ".intercalate (sv.locs.map NGF.PipelineTie.showLoc)

def probeCap : Nat := 300

/-- first probe on which NGINX answers differently under the two configurations -/
def meaningDiff (probes : List Pipeline.Req) (a b : Pipeline.Conf) : Option String :=
  match probes.find? (fun q => Pipeline.nginxEvalConf a q != Pipeline.nginxEvalConf b q) with
  | some q => some s!"port {q.port} host {String.ofList q.host} path {String.ofList q.path} method {String.ofList q.method} headers {q.headers.map fun h => (String.ofList h.1, String.ofList h.2)} query {q.query.map fun h => (String.ofList h.1, String.ofList h.2)}: {repr (Pipeline.nginxEvalConf a q)} / {repr (Pipeline.nginxEvalConf b q)}"
  | none => none

def gwKeysNodup (s : Pipeline.Scenario) : Bool := Pipeline.nodup (s.gateways.map fun g => (g.ns, g.name))

/-- is `t` a reordering of `s` (classes, gateways, routes permuted)? -/
def reordered (s t : Pipeline.Scenario) : Bool :=
  t.cls == s.cls && t.ctlr == s.ctlr && s.classes.isPerm t.classes && s.gateways.isPerm t.gateways && s.routes.isPerm t.routes

def firstSome {α} (l : List α) (f : Nat → α → Option String) : Option String :=
  ((List.range l.length).zip l).findSome? fun (i, a) => f i a

def pipelineLine (j : Json) : Except String Json := do
  let orders ← (← arr j "orders").mapM dOrder
  match orders with
  | [] => throw "no orders"
  | o0 :: rest =>
    let probes := ((NGF.C02.probes o0.flat probeCap).filter fun r => !r.tls).map NGF.PipelineTie.toReq
    -- (a) the property on the real outputs
    let secFail := firstSome rest fun i o =>
      o0.secs.findSome? fun (k, d) => if o.secs.lookup k == some d then none else some s!"{k}: order 0 vs order {i + 1}"
    let (confFail, meanFail, abstracted) :=
      match o0.real with
      | .error _ => ((none : Option String), (none : Option String), false)
      | .ok r0 =>
        (firstSome rest fun i o => match o.real with
            | .ok ri => (NGF.PipelineTie.confDiff ri r0).map fun d => s!"order {i + 1} vs order 0: {d}"
            | .error e => some s!"order {i + 1} not abstractable ({e}) but order 0 is",
         firstSome rest fun i o => match o.real with
            | .ok ri => (meaningDiff probes ri r0).map fun d => s!"order {i + 1} vs order 0: {d}"
            | .error _ => none,
         true)
    let judge :=
      match meanFail, confFail, secFail with
      | some d, _, _ => "fail pipeline-arrival-order-changes-routing " ++ d
      | none, some d, _ => "fail pipeline-arrival-order-changes-config " ++ d
      | none, none, some d => "fail pipeline-arrival-order-changes-files " ++ d
      | none, none, none => "ok"
    -- (b) model = code, per order; and the theorems executed on the model
    let frags := orders.map fun o => NGF.PipelineTie.toFragment o.flat
    let why := (frags.zip orders).findSome? fun (f, _) => match f with
      | .error e => some e
      | .ok fs => if Pipeline.inFragment fs then none else some "inFragment (well-formedness / prefix value ending in '/')"
    match why, frags with
    | some e, _ =>
      pure (Json.mkObj [("judge", judge), ("abstracted", abstracted), ("inFragment", false), ("why", e), ("orders", orders.length),
        ("probes", probes.length)])
    | none, [] => throw "no orders"
    | none, f0 :: _ =>
      let fs0 ← f0
      let g0 := Pipeline.gen fs0
      let tie := firstSome (frags.zip orders) fun i (f, o) =>
        match f, o.real with
        | .ok fs, .ok ri => (NGF.PipelineTie.confDiff ri (Pipeline.gen fs)).map fun d => s!"order {i}: {d}"
        | .ok _, .error e => some s!"order {i}: real configuration not abstractable: {e}"
        | .error e, _ => some e
      let hyps := gwKeysNodup fs0 && frags.all fun f => match f with | .ok fs => reordered fs0 fs | .error _ => false
      let thm := if !hyps then none else firstSome frags fun i f =>
        match f with
        | .ok fs =>
          let gi := Pipeline.gen fs
          match NGF.PipelineTie.confDiff gi g0 with
          | some d => some s!"gen_perm_equiv: order {i} vs order 0: {d}"
          | none => (meaningDiff probes gi g0).map fun d => s!"gen_perm_meaning: order {i} vs order 0: {d}"
        | .error _ => none
      let rawDiffers := (frags.filter fun f => match f with
        | .ok fs => showConfRaw (Pipeline.gen fs) != showConfRaw g0
        | .error _ => false).length
      let gwsOfClass : Nat := (fs0.gateways.filter fun g => g.cls == fs0.cls).length
      let nlocs : Nat := (g0.servers.map fun sv => sv.locs.length).sum
      pure (Json.mkObj [("judge", judge), ("abstracted", abstracted), ("inFragment", true), ("why", ""), ("orders", orders.length),
        ("probes", probes.length), ("tie", tie.getD ""), ("hyps", hyps), ("thm", thm.getD ""),
        ("rawDiffers", rawDiffers), ("servers", g0.servers.length),
        ("locs", nlocs), ("gwsOfClass", gwsOfClass), ("routes", fs0.routes.length),
        ("served", (Pipeline.winner fs0).isSome)])

def answer (line : String) : String :=
  match Json.parse line with
  | .error _ => "{\"error\":\"bad-op\"}"
  | .ok j =>
    if optStr j "site" != "pipe" then "{\"skip\":true}"
    else match pipelineLine j with
      | .ok v => v.compress
      | .error e => (Json.mkObj [("error", "bad-op"), ("why", e)]).compress

end NGF.PipelineIO
