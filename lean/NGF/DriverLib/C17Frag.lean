import Lean.Data.Json
import NGF.DriverLib.PipelineIO
import NGF.Model.PipelineRefsTie
import NGF.Model.PipelineForeign
/-
C17 `fragx` mode: a pair of in-fragment clusters (s, s ∪ X) as the harness ran them through the REAL pipeline.
Both sides are decoded into `PipelineRefs.ScenarioR` exactly as C06's `refs` stream does
(`PipelineRefsTie.toScenarioR`: C02's flat scenario + the backendRefs / ReferenceGrants of C06's flat input), X is
recovered as the objects of the second cluster that are not in the first (`diffX`), the executable hypotheses of
`noninterference_foreign_set` are evaluated (`hypsB`), and the conclusion is executed on the model
(`confDiff`, `meaningDiff` on C02's probes). The verdict on the REAL outputs (`filesEq`: order-normalised generated
files of the two runs) is a judge failure only when the hypotheses hold. Not subject of theorems.
-/
namespace NGF.C17Frag
open Lean (Json)
open NGF.PipelineForeign NGF.PipelineRefs

def optField (j : Json) (k : String) : Option Json :=
  match j.getObjVal? k with
  | .ok v => if v.isNull then none else some v
  | .error _ => none
def reqStr (j : Json) (k : String) : Except String String := do (← j.getObjVal? k).getStr?
def reqNat (j : Json) (k : String) : Except String Nat := do (← j.getObjVal? k).getNat?
def reqArr (j : Json) (k : String) : Except String (List Json) := do
  match j.getObjVal? k with
  | .ok v => if v.isNull then pure [] else return (← v.getArr?).toList
  | .error _ => pure []
def optStr (j : Json) (k : String) : Except String (Option String) :=
  match optField j k with | none => pure none | some v => do pure (some (← v.getStr?))
def optNat (j : Json) (k : String) : Except String (Option Nat) :=
  match optField j k with | none => pure none | some v => do pure (some (← v.getNat?))
def optInt (j : Json) (k : String) : Except String (Option Int) :=
  match optField j k with | none => pure none | some v => do pure (some (← v.getInt?))

/-- C06's flat input (harness/c06/flat.go `In`): only what `toScenarioR` reads — grants and route backendRefs -/
def parseGrant (j : Json) : Except String RefGrant.Grant := do
  let froms ← (← reqArr j "from").mapM fun f => do
    return ({ group := ← reqStr f "group", kind := ← reqStr f "kind", ns := ← reqStr f "ns" } : RefGrant.GrantFrom)
  let tos ← (← reqArr j "to").mapM fun t => do
    return ({ group := ← reqStr t "group", kind := ← reqStr t "kind", name := ← optStr t "name" } : RefGrant.GrantTo)
  return { ns := ← reqStr j "ns", name := ← reqStr j "name", froms := froms, tos := tos }

def parseRef (j : Json) : Except String RefGrant.BackendRef := do
  return { group := ← optStr j "group", kind := ← optStr j "kind", ns := ← optStr j "ns", name := ← reqStr j "name",
           port := ← optNat j "port", weight := ← optInt j "weight", nfilters := ← reqNat j "nfilters" }

def parseRoute (j : Json) : Except String RefGrant.Route := do
  let kind ← reqStr j "kind"
  let k : RefGrant.RouteKind := if kind == "HTTPRoute" then .http else if kind == "GRPCRoute" then .grpc else .tls
  let rules ← (← reqArr j "rules").mapM fun r => do
    return ({ paths := ← (← reqArr r "paths").mapM (·.getStr?), refs := ← (← reqArr r "refs").mapM parseRef } : RefGrant.RRule)
  return { kind := k, ns := ← reqStr j "ns", name := ← reqStr j "name", rules := rules }

def parseObjs (j : Json) : Except String RefGrant.Objs := do
  return { grants := ← (← reqArr j "grants").mapM parseGrant, routes := ← (← reqArr j "routes").mapM parseRoute,
           gateways := [], secrets := [] }

def side (j : Json) : Except String (NGF.Spec.GatewayAPI.Scenario × ScenarioR) := do
  let flat ← NGF.PipelineIO.dScenario (← j.getObjVal? "flat")
  let o ← parseObjs (← j.getObjVal? "in")
  return (flat, ← NGF.PipelineRefsTie.toScenarioR flat o)

def fragxLine (line : String) : String :=
  match Json.parse line with
  | .error _ => "bad-op"
  | .ok j =>
    let r : Except String Json := do
      let filesEq ← (← j.getObjVal? "filesEq").getBool?
      match side (← j.getObjVal? "a"), side (← j.getObjVal? "b") with
      | .error e, _ => return Json.mkObj [("inFragment", false), ("why", "s: " ++ e)]
      | _, .error e => return Json.mkObj [("inFragment", false), ("why", "s+X: " ++ e)]
      | .ok (fa, a), .ok (fb, b) =>
        let x := diffX a b
        let mixed := mixedB a x b
        let foreign := foreignB a x
        let keys := keysB a b
        let hyps := hypsB a x b
        let ga := genR a
        let gb := genR b
        let probes := (((NGF.C02.probes fb NGF.PipelineIO.probeCap) ++ (NGF.C02.probes fa 60)).filter fun r => !r.tls).map
          NGF.PipelineTie.toReq
        let thm : String :=
          if !hyps then "" else
          match NGF.PipelineTie.confDiff gb ga with
          | some d => "noninterference_foreign_set_equiv: " ++ d
          | none => ((NGF.PipelineIO.meaningDiff probes gb ga).map fun d => "noninterference_foreign_set: " ++ d).getD ""
        let served := (Pipeline.winner (resolve a)).isSome
        let xInGraph := match Pipeline.winner (resolve a) with
          | none => 0
          | some g => (x.routes.filter fun r => inGraph g r).length
        let refPerm := (referencedServices b).isPerm (referencedServices a)
        let thm := if thm == "" && hyps && xInGraph == 0 && !refPerm then "referencedServices_foreign_set" else thm
        let verdict := if !hyps then "skip hypotheses" else if filesEq then "ok" else "fail files_unchanged_fragment"
        return Json.mkObj [("inFragment", true), ("why", ""), ("mixed", mixed), ("foreign", foreign), ("keys", keys),
          ("hyps", hyps), ("thm", thm), ("verdict", verdict), ("served", served), ("probes", probes.length),
          ("xclasses", x.classes.length), ("xgateways", x.gateways.length), ("xroutes", x.routes.length),
          ("xservices", x.services.length), ("xgrants", x.grants.length),
          ("servers", ga.servers.length), ("rawDiffers", NGF.PipelineIO.showConfRaw ga != NGF.PipelineIO.showConfRaw gb),
          ("refSvcsPerm", refPerm), ("xInGraph", xInGraph)]
    match r with
    | .ok out => out.compress
    | .error e => s!"bad-op {e}"

end NGF.C17Frag
