#!/bin/sh
# Builds the framework from files on disk only (offline). Run in /verif.
set -e
cd "$(dirname "$0")"
export GOFLAGS=-mod=mod GOPROXY=off GOSUMDB=off GOTOOLCHAIN=local CGO_ENABLED=0
mkdir -p work evidence harness/bin translator/bin lean/NGF/Generated
(cd translator && go build -o bin/translator .)
./translator/bin/translator -repo /repo -out lean/NGF/Generated || [ $? -eq 3 ]
cat /repo/go.sum > harness/go.sum
[ -f harness/extra.sum ] && cat harness/extra.sum >> harness/go.sum
OVERLAY=""
[ -f overlay/overlay.json ] && OVERLAY="-overlay $(pwd)/overlay/overlay.json"
(cd harness && go build -tags verif $OVERLAY -o bin/ngfharness .)
python3 lean/gen_driver.py
cd lean
lake build ngfdriver NGF.AuditLib
for f in NGF/Props/*.lean; do
  m=$(echo "${f%.lean}" | tr / .)
  lake build "$m" || echo "setup: $m does not build (the check will report it)"
done
echo "setup done"
