#!/bin/sh
# Builds the framework from files on disk only (offline). Run in /verif.
set -e
cd "$(dirname "$0")"
export GOFLAGS=-mod=mod GOPROXY=off GOSUMDB=off GOTOOLCHAIN=local CGO_ENABLED=0
mkdir -p work evidence harness/bin translator/bin lean/NGF/Generated
(cd translator && go build -o bin/translator .)
./translator/bin/translator -repo /repo -out lean/NGF/Generated || [ $? -eq 3 ]
python3 lean/gen_driver.py
cd lean
lake build NGF.AuditLib
for f in NGF/Driver/*.lean; do
  lake build "ngfdriver_$(basename "${f%.lean}")" || echo "setup: driver $f does not build"
done
for f in NGF/Props/*.lean; do
  m=$(echo "${f%.lean}" | tr / .)
  lake build "$m" || echo "setup: $m does not build (the check will report it)"
done
cd ..
# warm the Go build cache for the harness commands (the checks rebuild them against /repo anyway)
for d in harness/cmd/*/; do
  ./check "$(basename "$d" | tr a-z A-Z)" --build-only || true
done
echo "setup done"
